/-
  Second part of the model for property C15: the glue around the rounding / interpolation core of
  `Model/Grid.lean`.

  * `decimalsOf` driven constructor (`decimals=None`), `np.arange` / `from_range`,
  * `ParameterGrid` as an object with a history of operations (`add_extra_lower_and_upper_bin`, the
    public `lower_bound` and `grid` setters),
  * `IrregularParameterGrid` with its argument checks and the array forms of the rounding methods
    (one out-of-range element makes the whole call raise),
  * `NullGridManifoldInterpolationMethod` for any number of parameter grids,
  * `ParameterGridSet.parameter_permutation_dict_list` (`itertools.product`) and the `PDFSet`
    registry keyed by `make_dict_hash` of the grid values.

  Same conventions as `Model/Grid.lean`: core Lean only, scalar-polymorphic, Python exceptions as
  `Option`, the model mirrors the code after the `fix:` commits of this property.
-/
import SkyllhModel.Model.Grid

namespace Grid
open RoundOps

/-! ### constructor with inferred decimals -/

section auto
variable {F : Type} [Add F] [Sub F] [Mul F] [Div F] [LT F] [DecidableLT F] [RoundOps F]

/-- `decimals = max(get_number_of_float_decimals(grid[0]), get_number_of_float_decimals(delta))`;
`toQ` is the exact rational value of a scalar (`floatToRat` for doubles, the identity for `Rat`). -/
def decimalsAuto (toQ : F → Rat) (g0 delta : F) : Nat := max (decimalsOf (toQ g0)) (decimalsOf (toQ delta))

/-- `ParameterGrid.__init__` with `decimals=None` -/
def mkGridAuto (toQ : F → Rat) (g0 delta : F) (fd maxDec : Nat) : Option (PGrid F) :=
  mkGridChecked g0 delta (decimalsAuto toQ g0 delta) fd maxDec

/-! ### `np.arange` and `ParameterGrid.from_range` -/

/-- ceiling as an integer -/
def ceilI (x : F) [Neg F] : Int := - floorI (- x)

variable [Neg F]

/-- `len(np.arange(start, stop, step))` = `ceil((stop - start)/step)`, at least 0 -/
def arangeLen (start stop step : F) : Nat := (ceilI ((stop - start) / step)).toNat

/-- `np.arange(start, stop, step)` for doubles: element 0 is `start`, element 1 is `start + step`,
element `i ≥ 2` is `start + i*d` with `d = (start + step) - start` (numpy's fill loop). -/
def arange (start stop step : F) : List F :=
  let d := (start + step) - start
  (List.range (arangeLen start stop step)).map fun (i : Nat) =>
    if i = 0 then start else if i = 1 then start + step else start + ofI (Int.ofNat i) * d

/-- the array `ParameterGrid.from_range(name, start, stop, delta)` passes to the constructor
(fixed code: half a spacing of margin for the end point) -/
def fromRangeArr (start stop delta : F) : List F := arange start (stop + delta / ofI 2) delta

end auto

/-! ### `ParameterGrid` as an object -/

section obj
variable {F : Type} [Add F] [Sub F] [Mul F] [Div F] [LT F] [DecidableLT F] [RoundOps F]

/-- the state of a `ParameterGrid` object: the descriptors and the stored grid array -/
structure PGObj (F : Type) where
  G : PGrid F
  grid : List F

/-- `ParameterGrid(name, arr, delta, decimals)`; `none` = the constructor raises (argument checks
of `mkGridChecked`, empty array) -/
def PGObj.new (arr : List F) (delta : F) (dec : Int) (fd maxDec : Nat) : Option (PGObj F) :=
  match arr.head? with
  | none => none
  | some g0 =>
    match mkGridChecked g0 delta dec fd maxDec with
    | none => none
    | some G => some ⟨G, buildGrid G arr⟩

/-- the operations that change a `ParameterGrid` object -/
inductive PGOp (F : Type) where
  /-- `add_extra_lower_and_upper_bin()` -/
  | extra
  /-- `obj.lower_bound = x`: rounds `x` to `decimals`; the grid array is *not* touched -/
  | setLowerBound (x : F)
  /-- `obj.grid = arr`: stores the nearest grid points; the lower bound is *not* touched -/
  | setGrid (arr : List F)
  /-- continue with `obj.copy()` / `copy.deepcopy(obj)` / an unpickled `obj` / the member of a copied
  `ParameterGridSet`: the same state in a new object (the model has value semantics — that the copy
  shares no writable memory with anything is the `views` oracle's part) -/
  | copy

/-- one operation; `none` = it raises and the object is unchanged -/
def PGObj.step (o : PGObj F) : PGOp F → Option (PGObj F)
  | .extra => (addExtra o.G o.grid).map fun r => ⟨r.1, r.2⟩
  | .setLowerBound x => some { o with G := { o.G with lb := aroundDec o.G.dec x } }
  | .setGrid arr => some { o with grid := buildGrid o.G arr }
  | .copy => some o

/-- a history of operations (a raising operation leaves the object as it was) -/
def PGObj.run (o : PGObj F) : List (PGOp F) → PGObj F
  | [] => o
  | op :: rest => PGObj.run ((o.step op).getD o) rest

end obj

/-! ### `IrregularParameterGrid` with its checks and array arguments -/

section irr2
variable {F : Type} [LE F] [DecidableLE F] [LT F] [DecidableLT F]

/-- `np.all(np.diff(arr) > 0)` -/
def strictlyIncreasing : List F → Bool
  | a :: b :: rest => decide (a < b) && strictlyIncreasing (b :: rest)
  | _ => true

/-- `IrregularParameterGrid(name, arr)`: `none` = ValueError (not strictly increasing) -/
def mkIrr (arr : List F) : Option (List F) := if strictlyIncreasing arr then some arr else none

/-- `round_to_lower_grid_point` of the fixed code: `none` = IndexError for a value below the first
grid point (no wrap-around through the negative index) -/
def irrLowerC (g : List F) (v : F) : Option F :=
  let c := ssRight g v
  if c = 0 then none else g[c - 1]?

/-- all answers, or `none` as soon as one is missing -/
def optAll {α : Type} : List (Option α) → Option (List α)
  | [] => some []
  | none :: _ => none
  | some a :: rest => (optAll rest).map (a :: ·)

/-- array arguments: one element without an answer makes the whole call raise -/
def irrLowerArr (g vs : List F) : Option (List F) := optAll (vs.map (irrLowerC g))
def irrUpperArr (g vs : List F) : Option (List F) := optAll (vs.map (irrUpper g))

variable [Add F] [Div F] [OfNat F 2]
def irrNearestArr (g vs : List F) : Option (List F) := optAll (vs.map (irrNearest g))

end irr2

/-! ### `IrregularParameterGrid` as an object: queries and changes interleaved -/

section iobj
variable {F : Type} [LE F] [DecidableLE F] [LT F] [DecidableLT F] [Add F] [Sub F] [Div F] [OfNat F 2]

/-- the state of an `IrregularParameterGrid` object: the stored grid array (the code keeps nothing
else — in particular no array derived from the grid survives a call) -/
structure IGObj (F : Type) where
  grid : List F

/-- what can be done with the object -/
inductive IGOp (F : Type) where
  | extra                      -- `add_extra_lower_and_upper_bin()`
  | setGrid (arr : List F)     -- `obj.grid = arr` (validated like the constructor argument)
  | copy                       -- continue with `copy()` / `deepcopy` / an unpickled object
  | nearest (v : F)            -- `round_to_nearest_grid_point(v)`
  | lower (v : F)
  | upper (v : F)

/-- what an operation shows: the new grid, the answer of a query (`none` = IndexError), or that a
changing operation raised (the object is unchanged) -/
inductive IGOut (F : Type) where
  | state (g : List F)
  | answer (a : Option F)
  | raised
  deriving DecidableEq

def IGObj.step (o : IGObj F) : IGOp F → IGObj F × IGOut F
  | .extra => match irrAddExtra o.grid with
    | some g' => (⟨g'⟩, .state g')
    | none => (o, .raised)
  | .setGrid arr => match mkIrr arr with
    | some g' => (⟨g'⟩, .state g')
    | none => (o, .raised)
  | .copy => (o, .state o.grid)
  | .nearest v => (o, .answer (irrNearest o.grid v))
  | .lower v => (o, .answer (irrLowerC o.grid v))
  | .upper v => (o, .answer (irrUpper o.grid v))

/-- the object after a history -/
def IGObj.after (o : IGObj F) : List (IGOp F) → IGObj F
  | [] => o
  | op :: rest => IGObj.after (o.step op).1 rest

/-- what a history shows, operation by operation -/
def IGObj.trace (o : IGObj F) : List (IGOp F) → List (IGOut F)
  | [] => []
  | op :: rest => (o.step op).2 :: IGObj.trace (o.step op).1 rest

end iobj

/-! ### `NullGridManifoldInterpolationMethod` for `D` parameter grids -/

section null
variable {F : Type} [Add F] [Sub F] [Mul F] [Div F] [LT F] [DecidableLT F] [RoundOps F]

/-- the rounded parameter columns handed to the manifold function -/
def nullGridParams (Gs : List (PGrid F)) (params : List (List F)) : List (List F) :=
  List.zipWith (fun G col => col.map (roundNearest G)) Gs params

/-- `__call__`: values of the manifold function at the nearest grid points, all gradients zero
(`D` rows, one entry per value). `Mf sid columns` is the manifold function. -/
def nullSpec (Gs : List (PGrid F)) (Mf : Option Int → List (List F) → List F) (sid : Option Int)
    (params : List (List F)) : List F × List (List F) :=
  let values := Mf sid (nullGridParams Gs params)
  (values, Gs.map fun _ => List.replicate values.length (ofI 0))

end null

/-! ### permutations of grid values and the `PDFSet` registry -/

/-- `itertools.product(*grids)`: the last grid varies fastest -/
def gridProduct {F : Type} : List (List F) → List (List F)
  | [] => [[]]
  | g :: rest => g.flatMap fun x => (gridProduct rest).map fun t => x :: t

/-- `parameter_permutation_dict_list`: one dictionary (list of name/value items) per permutation -/
def permutationDicts {F : Type} (names : List String) (grids : List (List F)) : List (List (String × F)) :=
  (gridProduct grids).map fun t => names.zip t

section pdfset
variable {F : Type} [BEq F] {P : Type}

/-- `make_dict_hash(d1) == make_dict_hash(d2)`: the *set* of items decides (insertion order does
not), float values are compared as numbers with the sign of zero normalised (`(v + 0.0).hex()`;
`==` of the scalar). Hash collisions of distinct item sets are not modelled. -/
def keyEq (d1 d2 : List (String × F)) : Bool :=
  d1.all (fun i => d2.any (fun j => i.1 == j.1 && i.2 == j.2)) &&
  d2.all (fun i => d1.any (fun j => i.1 == j.1 && i.2 == j.2))

/-- the registry `_gridparams_hash_pdf_dict` in insertion order -/
abbrev PDFSetM (F P : Type) := List (List (String × F) × P)

/-- `PDFSet.get_pdf(gridparams)`: `none` = KeyError -/
def pdfGet (s : PDFSetM F P) (d : List (String × F)) : Option P :=
  (s.find? fun e => keyEq e.1 d).map (·.2)

/-- `PDFSet.add_pdf(pdf, gridparams)`: `none` = KeyError "already added" -/
def pdfAdd (s : PDFSetM F P) (pdf : P) (d : List (String × F)) : Option (PDFSetM F P) :=
  if (pdfGet s d).isSome then none else some (s ++ [(d, pdf)])

/-- register `mk d` for every dictionary of the list, in order -/
def pdfAddAll (mk : List (String × F) → P) : PDFSetM F P → List (List (String × F)) → Option (PDFSetM F P)
  | s, [] => some s
  | s, d :: rest => (pdfAdd s (mk d) d).bind fun s' => pdfAddAll mk s' rest

end pdfset

end Grid
