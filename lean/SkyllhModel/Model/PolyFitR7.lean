/-
  Round 7 (C12): the part of `polynomial_fit` that was only *recorded* so far — `np.polyfit(ns, p, deg,
  w=p_weight, cov=True)` — as an executable model, and `polynomial_fit` as a function of the *data*.

  `np.polyfit` with weights minimises `Σ (wᵢ·(yᵢ − P(xᵢ)))²` over the polynomials of the given degree
  (numpy multiplies both sides of the Vandermonde system by `w`, rescales the columns and calls LAPACK's
  `gelsd`).  The model solves the same least-squares problem through its normal equations
  (moments `S_k = Σ wᵢ² xᵢᵏ`, `T_k = Σ wᵢ² xᵢᵏ yᵢ`, Cramer's rule), in the same order of argument checks
  as numpy: `deg < 0` (ValueError), empty `x` (TypeError), `len(x) ≠ len(y)`, `len(w) ≠ len(y)`
  (TypeError), then the solve, then — because skyllh passes `cov=True` — `inv(lhsᵀ·lhs)` (LinAlgError for a
  rank-deficient system: vanishing determinant here) and `len(x) <= deg + 1` (ValueError).
  Core Lean only; run by `Driver/C12.lean` in exact rational arithmetic (`Rat`).
-/
import SkyllhModel.Model.Stat

namespace Stat

inductive PfErr where
  | degNegative       -- ValueError "expected deg >= 0"
  | xEmpty            -- TypeError "expected non-empty vector for x"
  | xyLen             -- TypeError "expected x and y to have same length"
  | wyLen             -- TypeError "expected w and y to have the same length"
  | singular          -- rank-deficient system (numpy: RankWarning, then LinAlgError of `inv` / meaningless numbers)
  | tooFewForCov      -- ValueError "the number of data points must exceed order to scale the covariance matrix"
  | degreeNotModelled -- deg ≥ 3: numpy fits, `polynomial_fit` raises ValueError afterwards; no model of the solve
  deriving DecidableEq, Repr

/-- what `polynomial_fit` can end with, as a function of the data -/
inductive PfdErr where
  | polyfit (e : PfErr)       -- an exception out of one of the two `np.polyfit` calls
  | poly (e : PolyErr)        -- what `polyFit` reports (ValueError for the degree, inf/NaN)
  deriving DecidableEq, Repr

section lsq
variable {F : Type} [Add F] [Sub F] [Mul F] [Div F] [Neg F] [LT F] [DecidableLT F] [OfNat F 0]

/-- the sample as a list of points `(x, y, w)` (the lengths have been checked before) -/
def pfPoints (xs ys ws : List F) : List (F × F × F) := xs.zip (ys.zip ws)

/-- `Σ f(x, y, w)` over the sample -/
def pfSum (f : F × F × F → F) (pts : List (F × F × F)) : F := sumF (pts.map f)

/-- the moments of the weighted sample: `(S0, S1, S2, S3, S4)`, `S_k = Σ w² x^k` -/
def momS (pts : List (F × F × F)) : F × F × F × F × F :=
  (pfSum (fun p => p.2.2 * p.2.2) pts,
   pfSum (fun p => p.2.2 * p.2.2 * p.1) pts,
   pfSum (fun p => p.2.2 * p.2.2 * (p.1 * p.1)) pts,
   pfSum (fun p => p.2.2 * p.2.2 * (p.1 * p.1 * p.1)) pts,
   pfSum (fun p => p.2.2 * p.2.2 * (p.1 * p.1 * p.1 * p.1)) pts)

/-- `(T0, T1, T2)`, `T_k = Σ w² x^k y` -/
def momT (pts : List (F × F × F)) : F × F × F :=
  (pfSum (fun p => p.2.2 * p.2.2 * p.2.1) pts,
   pfSum (fun p => p.2.2 * p.2.2 * p.1 * p.2.1) pts,
   pfSum (fun p => p.2.2 * p.2.2 * (p.1 * p.1) * p.2.1) pts)

def det2 (a b c d : F) : F := a * d - b * c

def det3 (a b c d e f g h i : F) : F :=
  a * (e * i - f * h) - b * (d * i - f * g) + c * (d * h - e * g)

/-- degree 0: the weighted mean `T0 / S0` -/
def lsq0 (pts : List (F × F × F)) : Except PfErr (List F) :=
  let (s0, _, _, _, _) := momS pts
  let (t0, _, _) := momT pts
  if polyIsZero s0 then .error .singular else .ok [t0 / s0]

/-- degree 1: `S2·a + S1·b = T1`, `S1·a + S0·b = T0` -/
def lsq1 (pts : List (F × F × F)) : Except PfErr (List F) :=
  let (s0, s1, s2, _, _) := momS pts
  let (t0, t1, _) := momT pts
  let d := det2 s2 s1 s1 s0
  if polyIsZero d then .error .singular
  else .ok [det2 t1 s1 t0 s0 / d, det2 s2 t1 s1 t0 / d]

/-- degree 2: `S4·a + S3·b + S2·c = T2`, `S3·a + S2·b + S1·c = T1`, `S2·a + S1·b + S0·c = T0` -/
def lsq2 (pts : List (F × F × F)) : Except PfErr (List F) :=
  let (s0, s1, s2, s3, s4) := momS pts
  let (t0, t1, t2) := momT pts
  let d := det3 s4 s3 s2 s3 s2 s1 s2 s1 s0
  if polyIsZero d then .error .singular
  else .ok [det3 t2 s3 s2 t1 s2 s1 t0 s1 s0 / d,
            det3 s4 t2 s2 s3 t1 s1 s2 t0 s0 / d,
            det3 s4 s3 t2 s3 s2 t1 s2 s1 t0 / d]

/-- `np.polyfit(x, y, deg, w=w, cov=True)[0]` (coefficients, highest power first) -/
def polyfitR7 (deg : Int) (xs ys ws : List F) : Except PfErr (List F) :=
  if deg < 0 then .error .degNegative
  else if xs.isEmpty then .error .xEmpty
  else if xs.length ≠ ys.length then .error .xyLen
  else if ws.length ≠ ys.length then .error .wyLen
  else
    let pts := pfPoints xs ys ws
    let sol := if deg = 0 then lsq0 pts else if deg = 1 then lsq1 pts else if deg = 2 then lsq2 pts
               else .error .degreeNotModelled
    match sol with
    | .error e => .error e
    | .ok c => if (xs.length : Int) ≤ deg + 1 then .error .tooFewForCov else .ok c

end lsq

section whole
variable {F : Type} [Add F] [Sub F] [Mul F] [Div F] [Neg F] [LT F] [DecidableLT F]
  [OfNat F 0] [OfNat F 2] [OfNat F 4] [Transc F]
variable {G : Type} [Add G] [Sub G] [Mul G] [Div G] [Neg G] [LT G] [DecidableLT G] [OfNat G 0]

def liftPoly {α : Type} : Except PolyErr α → Except PfdErr α
  | .ok v => .ok v
  | .error e => .error (.poly e)

/-- `polynomial_fit(ns, p, p_weight, deg, p_thr)` as a function of the data: the first `np.polyfit`
call, the fall-back decision, the second call only when the fall-back is taken, the inversion.
The least-squares problem is solved in `G`, the inversion runs in `F`; `conv` carries the coefficients
over (the driver: `G = Rat` exact, `conv` = rounding to double, `F = Float`; the theorems: `G = F = ℝ`,
`conv = id`). -/
def polynomialFitData (conv : G → F) (deg : Int) (xs ys ws : List G) (pthr : F) :
    Except PfdErr (F × Nat) :=
  match polyfitR7 deg xs ys ws with
  | .error e => .error (.polyfit e)   -- in particular `deg < 0`, so `deg.toNat` below is `deg`
  | .ok params =>
    if polySwitch deg.toNat (params.map conv) pthr then
      match polyfitR7 1 xs ys ws with
      | .error e => .error (.polyfit e)
      | .ok p1 => liftPoly (polyFit (fun _ => p1.map conv) 1 pthr)
    else liftPoly (polyFit (fun _ => params.map conv) deg.toNat pthr)

end whole

end Stat
