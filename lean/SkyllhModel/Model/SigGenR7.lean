/-
C18, round 7 — additions to the signal-injection model (core Lean only).

§R7.1  the surplus removal with the mask `n > 0` taken ONCE before the loop (`decrHoisted`, NOT the code): the class
       "state that must be re-read after every removed event".  It is `decrOrig` run on the masked and normalised
       weights of the rounded counts.
§R7.2  the entry of `MultiDatasetSignalGenerator.generate_signal_events` (signal_generator.py:369-377): the Poisson
       branch and `int_cast` of the total, and the whole method as ONE function `multiGenerate`
       (entry → `distribute` → `aggregate`).
-/
import SkyllhModel.Model.SigGen

namespace SigGen

section r7
variable {F : Type} [Add F] [Mul F] [Div F] [LE F] [DecidableLE F] [LT F] [DecidableLT F] [OfNat F 0]

/-- NOT the code (kept for the counterexample and as the twin of the harness' stale-mask reference):
```
p = np.where(n > 0, w, 0.); p /= np.sum(p)
for _ in range(surplus): n[choice(p=p)] -= 1
```
the mask is evaluated once; a dataset emptied by an earlier removal keeps its probability. -/
def decrHoisted (right : Bool) (w : List F) (n : List Int) (us : List F) : Option (List Int) :=
  let p := masked n w
  let s := sumSeq p
  decrOrig right (p.map (· / s)) n us

def distributeHoisted (right : Bool) (rnd : F → Int) (mean : Int) (m : F) (w us : List F) :=
  distributeWith (decrHoisted right w) right rnd mean m w us

/-- the total the method works with (signal_generator.py:369-377):
`if poisson: mean = rss.random.poisson(float_cast(mean))` — numpy refuses a negative mean (`none`), the draw itself
is an input (`pdraw`); then `mean = int_cast(mean)` — `trunc` is Python's `int()` on the argument
(`none` = TypeError for nan / inf). -/
def entryTotal (poisson : Bool) (trunc : F → Option Int) (meanArg : F) (pdraw : Int) : Option Int :=
  if poisson then (if meanArg < 0 then none else some pdraw) else trunc meanArg

/-- `MultiDatasetSignalGenerator.generate_signal_events` as one function: entry, per-dataset numbers, loop over the
per-dataset generators -> (n_signal, events per dataset key, uniform deviates consumed).  `ofInt` embeds the integer
total into the scalar type (`mean * ds_weights`). -/
def multiGenerate (right : Bool) (rnd : F → Int) (trunc : F → Option Int) (ofInt : Int → F) (poisson : Bool)
    (meanArg : F) (pdraw : Int) (w us : List F) (gens : List DsGen) : Option (Nat × List (Nat × Nat) × Nat) :=
  match entryTotal poisson trunc meanArg pdraw with
  | none => none
  | some mean =>
    match distribute right rnd mean (ofInt mean) w us with
    | none => none
    | some (counts, k) =>
      match aggregate counts gens with
      | none => none
      | some (n, d) => some (n, d, k)

end r7

/-- Python's `int(x)` on a double: truncation toward zero; nan / inf raise (int_cast turns that into TypeError) -/
def truncF (x : Float) : Option Int :=
  if x.isNaN || x.isInf then none else some x.toInt64.toInt

/-- `int(q)` on ℚ: truncation toward zero -/
def truncQ (q : Rat) : Option Int := some (if 0 ≤ q then q.floor else -((-q).floor))

end SigGen
