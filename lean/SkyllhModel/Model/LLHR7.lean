/-
  Model/LLHR7.lean — the value part of
  `ZeroSigH0SingleDatasetTCLLHRatio.calculate_log_lambda_and_grads` at the level of the numpy ARRAYS it
  manipulates (round 7, owned by C01; `Model/LLH.lean` has the per-event form `lamOfAlpha`).

      alpha_i      = ns*Xi
      m_stable     = alpha_i > alpha                        -- comparison operator: parameter `strict`
      m_unstable   = ~m_stable
      any_unstable = np.any(m_unstable)
      log_lambda_i = np.empty_like(alpha_i)                 -- uninitialised memory: `none`
      np.log1p(alpha_i, where=m_stable, out=log_lambda_i)   -- pass 1: writes the stable slots only
      if any_unstable:
          tildealpha_i = (alpha_i[m_unstable] - alpha)/one_plus_alpha        -- gather (compacted)
          log_lambda_i[m_unstable] = log1p(alpha) + tildealpha_i - c*tildealpha_i**2   -- scatter
      log_lambda = np.sum(log_lambda_i) + (N - Nprime)*np.log1p(-ns/N)

  A slot of the `np.empty_like` buffer that is never written would make `np.sum` read uninitialised
  memory; the model gives `none` for that (`sumOpt`).  The coefficient `c` of the quadratic term and the
  comparison operator are parameters whose current values are read from the source
  (`Gen.C01.taylorCoeff`, `Gen.C01.stableStrict`).
-/
import SkyllhModel.Model.LLH

namespace LLH

section
variable {F : Type} [Add F] [Sub F] [Mul F] [Div F] [Neg F] [LT F] [DecidableLT F] [LE F] [DecidableLE F]
  [OfNat F 0] [OfNat F 1] [OfScientific F] [Transc F]

/-- the continuation with the coefficient `c` of the quadratic term as a parameter (`0.5` in the source) -/
def taylorBranchC (opa c a : F) : F :=
  Transc.log1p (opa - 1) + tildeAlpha opa a - c * (tildeAlpha opa a * tildeAlpha opa a)

/-- `m_stable = alpha_i > alpha` (`strict`) or `alpha_i >= alpha` -/
def stableMask (strict : Bool) (opa a : F) : Bool :=
  if strict then decide (opa - 1 < a) else decide (opa - 1 ≤ a)

/-- `np.log1p(alpha_i, where=m_stable, out=np.empty_like(alpha_i))` -/
def pass1 : List Bool → List F → List (Option F)
  | true :: m, a :: as => some (Transc.log1p a) :: pass1 m as
  | false :: m, _ :: as => none :: pass1 m as
  | _, _ => []

/-- `alpha_i[m_unstable]` -/
def gatherU : List Bool → List F → List F
  | false :: m, x :: xs => x :: gatherU m xs
  | true :: m, _ :: xs => gatherU m xs
  | _, _ => []

/-- `log_lambda_i[m_unstable] = vals` (a slot without a value is left as it is) -/
def scatterU : List Bool → List (Option F) → List F → List (Option F)
  | true :: m, b :: buf, vs => b :: scatterU m buf vs
  | false :: m, _ :: buf, v :: vs => some v :: scatterU m buf vs
  | _, buf, _ => buf

/-- `np.sum` over the buffer, left to right; `none` = an uninitialised slot is read -/
def sumOptFrom : Option F → List (Option F) → Option F
  | acc, [] => acc
  | some a, some v :: r => sumOptFrom (some (a + v)) r
  | _, _ :: _ => none

def sumOpt (xs : List (Option F)) : Option F := sumOptFrom (some 0) xs

/-- the buffer `log_lambda_i` after both passes -/
def logLambdaBuffer (strict : Bool) (opa c ns : F) (Xi : List F) : List (Option F) :=
  let alphaI := Xi.map (ns * ·)
  let m := alphaI.map (stableMask strict opa)
  let buf1 := pass1 m alphaI
  if m.any (fun s => !s) then
    scatterU m buf1 ((gatherU m alphaI).map (taylorBranchC opa c))
  else buf1

/-- `calculate_log_lambda_and_grads(N, ns, ..., Xi, ...)[0]` -/
def calcLogLambda (strict : Bool) (opa c : F) (N : Nat) (ns : F) (Xi : List F) : Option F :=
  match sumOpt (logLambdaBuffer strict opa c ns Xi) with
  | some s => some (s + pureBkgTerm N Xi.length ns)
  | none => none

/-- diagnostic: `np.any(m_unstable)` and `np.count_nonzero(m_unstable)` (what the tracing branch logs) -/
def unstableInfo (strict : Bool) (opa ns : F) (Xi : List F) : Bool × Nat :=
  let m := (Xi.map (ns * ·)).map (stableMask strict opa)
  (m.any (fun s => !s), (m.filter (fun s => !s)).length)

end
end LLH
