/-
  Model/WeightsR7.lean — round 7 of C03: the *derivative* side of the two weight services, as coded
  (`skyllh/core/services.py`):

      SrcDetSigYieldWeightsService.calculate
          self._a_jk_grads = defaultdict(lambda: np.zeros((n_datasets, n_sources)))
          for gpidx in Yg_grads.keys():
              self._a_jk_grads[gpidx][ds_idx, shg_src_slice] = src_weights * Yg_grads[gpidx]
      DatasetSignalWeightFactorsService.calculate
          a_j = np.sum(a_jk, axis=1);  a = np.sum(a_jk);  self._f_j = a_j / a
          for gpidx in a_jk_grads.keys():
              a_j_grads = np.sum(a_jk_grads[gpidx], axis=1);  a_grads = np.sum(a_jk_grads[gpidx])
              self._f_j_grads[gpidx] = (a_j_grads * a - a_j * a_grads) / a**2

  The literal `axis` of the three `np.sum` calls and the literal exponent of `a**2` are *parameters* of the model;
  `harness/props/c03.py:generated` reads them from the current source into `Generated/C03.lean` and
  `Props/C03.lean` proves the `…_for_current_source` lemmas at these values.
  Core Lean only, polymorphic in the scalar (Float in the driver, any field in the proofs).
-/
import SkyllhModel.Scalar
import SkyllhModel.Model.Weights

namespace WeightsR7
open Weights

section
variable {F : Type} [Add F] [Sub F] [Mul F] [Div F] [OfNat F 0] [OfNat F 1]

/-- `np.sum(table, axis=0)` of a rectangular table: one entry per column -/
def colSums (a : List (List F)) : List F :=
  match a with
  | [] => []
  | r :: rest => rest.foldl (fun acc row => List.zipWith (· + ·) acc row) r

/-- `np.sum(table, axis=ax)` for a 2-d table: `ax = 1` one sum per row (dataset), `ax = 0` one per column
(source); any other literal is numpy's `AxisError` -/
def sumAxis (ax : Nat) (a : List (List F)) : Option (List F) :=
  if ax = 1 then some (a.map sumF) else if ax = 0 then some (colSums a) else none

/-- `f_j = np.sum(a_jk, axis=ax) / np.sum(a_jk)` with the axis literal as parameter -/
def fjAxis (ax : Nat) (a : List (List F)) : Option (List F) :=
  (sumAxis ax a).map (fun aj => aj.map (· / total a))

/-- `x**e` for a literal natural exponent (`x**2` is `x*x` in numpy; `1 * x * x` is the same double) -/
def powN (x : F) : Nat → F
  | 0 => 1
  | n + 1 => powN x n * x

/-- `(a_j_grads * a - a_j * a_grads) / a**e` for the dataset with row `row` (derivative row `drow`) -/
def fjGradEntry (e : Nat) (ta tda : F) (aj daj : F) : F := (daj * ta - aj * tda) / powN ta e

/-- `f_j_grads[gpidx]` as coded, axis literal `ax` and exponent literal `e` as parameters -/
def fjGrads (ax e : Nat) (a da : List (List F)) : Option (List F) :=
  match sumAxis ax a, sumAxis ax da with
  | some aj, some daj => some (List.zipWith (fjGradEntry e (total a) (total da)) aj daj)
  | _, _ => none

/-- the specification form: quotient rule row by row -/
def fjGradsSpec (a da : List (List F)) : List F :=
  List.zipWith (fun r dr => (sumF dr * total a - sumF r * total da) / (total a * total a)) a da

/-- one dataset row of `a_jk_grads[gpidx]`: `init` is the row of the `np.zeros` table the `defaultdict` made;
a hypothesis group whose yield reported the key (`some dy`) writes `src_weights * Yg_grads[gpidx]` into its
slice, a group without the key (`none`) leaves its slice alone; the running index moves on in both cases -/
def gradRow (init : List F) (groups : List (List F × Option (List F))) (sidx : Nat := 0) : List F :=
  match groups with
  | [] => init
  | (w, some dy) :: rest => gradRow (setSlice init sidx (List.zipWith (· * ·) w dy)) rest (sidx + w.length)
  | (w, none) :: rest => gradRow init rest (sidx + w.length)

/-- does any (dataset, group) report the key?  (otherwise the `defaultdict` never creates the entry) -/
def hasKey (rows : List (List (List F × Option (List F)))) : Bool :=
  rows.any (fun gs => gs.any (fun g => g.2.isSome))

/-- `a_jk_grads[gpidx]`: `none` = the key is absent from the dictionary, otherwise the `(J, K)` table -/
def gradTable (K : Nat) (rows : List (List (List F × Option (List F)))) : Option (List (List F)) :=
  if hasKey rows then some (rows.map (fun gs => gradRow (List.replicate K 0) gs)) else none

/-- the specification of one row: per group `w * dy`, or zeros where the group has no key -/
def gradRowSpec (groups : List (List F × Option (List F))) : List F :=
  groups.flatMap (fun g => match g.2 with
    | some dy => List.zipWith (· * ·) g.1 dy
    | none => List.replicate g.1.length 0)

end
section guard
variable {F : Type} [Add F] [Mul F] [Div F] [OfNat F 0] [LT F] [DecidableLT F]

/-- `SourceWeightedPDFRatio.get_ratio` with the comparison of its guard `if A <op> 0: R_i /= A` as a parameter, coded
as a number by `harness/props/c03.py:generated` from the current source: `0` is `A != 0` (the code as fixed), `1` is
`A > 0` (the first repair, wrong for a negative total weight), any other code stands for the unguarded division of the
original code (`0/0` for a dataset without yield). -/
def ratioWeightedG (code : Nat) (ak : List F) (Rk : List (List F)) (nSel : Nat) : List F :=
  if code = 0 then
    (if 0 < sumF ak ∨ sumF ak < 0 then (weightedSums ak Rk nSel).map (· / sumF ak) else weightedSums ak Rk nSel)
  else if code = 1 then
    (if 0 < sumF ak then (weightedSums ak Rk nSel).map (· / sumF ak) else weightedSums ak Rk nSel)
  else (weightedSums ak Rk nSel).map (· / sumF ak)

end guard

/-! #### Life cycle of the two services through their public API, with the exceptions the code raises

`SrcDetSigYieldWeightsService.__init__` leaves `_a_jk = None`; `DatasetSignalWeightFactorsService.__init__` does not
create `_f_j` at all.  `change_shg_mgr` raises `ValueError` (before writing anything) for a manager that is not the one
of the detector-signal-yield service. -/

inductive Err where
  | valueError       -- `change_shg_mgr`: foreign `SourceHypoGroupManager`
  | axisError        -- `DatasetSignalWeightFactorsService.calculate()` before any `calculate` of the weight service: `np.sum(None, axis=1)`
  | attributeError   -- `DatasetSignalWeightFactorsService.get_weights()` before its `calculate()`: no `_f_j`
  deriving DecidableEq, Repr

structure Life (F : Type) where
  W : List F                      -- source weights in the manager
  Wc : List F                     -- `_src_weight_array_list`
  a : Option (List (List F))      -- `_a_jk` (`None` after construction)
  f : Option (List F)             -- `_f_j` (attribute missing after construction)

inductive LifeOp (F : Type) where
  | setW (W' : List F)            -- weights changed in the manager
  | changeShgMgr (same : Bool)    -- `change_shg_mgr(shg_mgr)`; `same`: it is the manager of the yield service
  | calcA (Y : List (List F))     -- `SrcDetSigYieldWeightsService.calculate` at parameters where the yields are `Y`
  | calcF                         -- `DatasetSignalWeightFactorsService.calculate()`
  | getA                          -- `SrcDetSigYieldWeightsService.get_weights()[0]`
  | getF                          -- `DatasetSignalWeightFactorsService.get_weights()[0]`

/-- what a call hands back: nothing, `None`, a table, a vector -/
inductive Out (F : Type) where
  | unit
  | pyNone
  | table (a : List (List F))
  | vec (f : List F)

section life
variable {F : Type} [Add F] [Mul F] [Div F] [OfNat F 0]

def lifeInit (W : List F) : Life F := { W := W, Wc := W, a := none, f := none }

/-- one call: the new state and what is returned, or the exception (state untouched: every `raise` of the code comes
before its first assignment) -/
def lifeStep (st : Life F) : LifeOp F → Except Err (Life F × Out F)
  | .setW W' => .ok ({ st with W := W' }, .unit)
  | .changeShgMgr same => if same then .ok ({ st with Wc := st.W }, .unit) else .error .valueError
  | .calcA Y => .ok ({ st with a := some (ajk st.Wc Y) }, .unit)
  | .calcF => match st.a with
      | none => .error .axisError
      | some a => .ok ({ st with f := some (fj a) }, .unit)
  | .getA => match st.a with
      | none => .ok (st, .pyNone)
      | some a => .ok (st, .table a)
  | .getF => match st.f with
      | none => .error .attributeError
      | some f => .ok (st, .vec f)

/-- a history of calls; the caller catches exceptions and goes on with the same objects -/
def lifeRun (st : Life F) : List (LifeOp F) → List (Except Err (Out F))
  | [] => []
  | op :: rest =>
      match lifeStep st op with
      | .ok (st', o) => .ok o :: lifeRun st' rest
      | .error e => .error e :: lifeRun st rest

/-- the state after a history -/
def lifeState (st : Life F) : List (LifeOp F) → Life F
  | [] => st
  | op :: rest =>
      match lifeStep st op with
      | .ok (st', _) => lifeState st' rest
      | .error _ => lifeState st rest

end life

section shapes
variable {F : Type} [Mul F]

/-- `src_weights * Yg` under numpy broadcasting, for a `DetSigYield` that returns an array of the wrong length: equal
lengths multiply elementwise; a length-1 yield array is silently broadcast over the sources of the group; every other
combination either cannot be broadcast or gives a product that does not fit the slice (`ValueError` in both cases) -/
def mulBroadcast (w y : List F) : Option (List F) :=
  if y.length = w.length then some (List.zipWith (· * ·) w y)
  else match y with
    | [y0] => some (w.map (· * y0))
    | _ => none

/-- one dataset row of `SrcDetSigYieldWeightsService.calculate` with the shape checks numpy performs; `none` = the
`ValueError` raised by the slice assignment -/
def calcRowChecked (init : List F) (groups : List (List F × List F)) (sidx : Nat := 0) : Option (List F) :=
  match groups with
  | [] => some init
  | (w, y) :: rest =>
      match mulBroadcast w y with
      | some v => calcRowChecked (setSlice init sidx v) rest (sidx + w.length)
      | none => none

end shapes

end WeightsR7
