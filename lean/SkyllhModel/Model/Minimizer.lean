/-
  Model of skyllh/core/minimizer.py — property C11.

  * `nr`       : `NR1dNsMinimizerImpl.minimize` (Newton-Raphson in the first parameter `ns`): the
                 `while` loop with fuel `max_steps - niter`, the boundary exit, the clipping of `ns`,
                 the final re-evaluation and the flag logic — as coded (incl. the guard for a flat
                 function `f' = f'' = 0`, see design.d/C11.md).
  * `scan`     : `NRNsScan2dMinimizerImpl.minimize` (numpy `linspace` of the 2nd parameter, one NR
                 minimisation per scan value, strict best-of selection).
  * `wrapper`  : `Minimizer.minimize` over an *arbitrary* implementation, given as the sequence of the
                 outcomes of its attempts (repeat while not converged ∧ repeatable ∧ reps < max, raise
                 if not converged, clip to the bounds and re-evaluate).
  * `maximize` : `LLHRatio.maximize` (minimise the negated function, negate the minimum).

  The objective of the NR minimiser is a function `F → Eval F` (ns ↦ (f, f', f'')); every call is
  recorded in `queries`, so that the harness can drive the model with the triples the real objective
  returned and compare query points, result and flags bit by bit.

  Only the standard notation classes are used (no laws): the same definitions run on `Float`
  (driver) and are reasoned about over any linear order / ordered field in `Props/C11.lean`.
-/
import SkyllhModel.Scalar

namespace Minimizer

/-- what an NR objective returns: `(f, fprime, fprimeprime)` -/
structure Eval (F : Type) where
  f : F
  fp : F
  fpp : F

/-- configuration of `NR1dNsMinimizerImpl.minimize`; `slopeThr` (the literal `1.e-1` in the loop
condition) and `fp0` (the literal `fprime = 1000`) are read from the source (Generated/C11.lean). -/
structure NRCfg (F : Type) where
  nsTol : F
  slopeThr : F
  fp0 : F
  maxSteps : Int
  nsMin : F
  nsMax : F

/-- number of steps the loop can take: `max_steps`, none for a negative setting -/
def NRCfg.steps {F : Type} (c : NRCfg F) : Nat := c.maxSteps.toNat

/-- how the `while` loop was left -/
inductive LoopEnd (F : Type) where
  /-- `break` at a bound with the step pointing outward: point, evaluation there, step, flag, niter, queries -/
  | boundary (ns : F) (ev : Eval F) (step : F) (flag : Int) (niter : Nat) (qs : List F)
  /-- loop condition false: point, last step, last slope, last evaluated point, niter, queries -/
  | ended (ns step fp xp : F) (niter : Nat) (qs : List F)

/-- result of `NR1dNsMinimizerImpl.minimize`: `x[0]`, `fmin`, `status['warnflag']`, `status['niter']`,
`status['last_nr_step']`; `lastFp`, `xPrev` (slope seen by the last loop test, point it was evaluated
at), `atBoundary` and `queries` (objective calls in order) are diagnostics of the model. -/
structure NROut (F : Type) where
  x : F
  f : F
  flag : Int
  niter : Nat
  lastStep : F
  lastFp : F
  xPrev : F
  atBoundary : Bool
  queries : List F

section nr
variable {F : Type} [Add F] [Neg F] [Div F] [LT F] [DecidableLT F] [BEq F] [OfNat F 0]

/-- `np.fabs` (sign of zero and NaN irrelevant for the comparisons it is used in) -/
def fabs (x : F) : F := if x < 0 then -x else x

/-- the Newton-Raphson step `-f'/f''`, no step where the function is flat -/
def newtonStep (ev : Eval F) : F :=
  if ev.fp == 0 && ev.fpp == 0 then 0 else -ev.fp / ev.fpp

/-- "Do not allow ns outside boundaries." -/
def clipNs (lo hi ns : F) : F := if ns < lo then lo else if hi < ns then hi else ns

/-- the loop condition without the step counter -/
def keepGoing (c : NRCfg F) (step fp : F) : Bool :=
  decide (c.nsTol < fabs step) || decide (c.slopeThr < fabs fp)

/-- "Exit optimization if ns is at boundary but next step would be outside." -/
def outward (c : NRCfg F) (ns step : F) : Bool :=
  (ns == c.nsMin && decide (step < 0)) || (ns == c.nsMax && decide (0 < step))

/-- the `while` loop; `fuel = max_steps - niter` -/
def nrLoop (c : NRCfg F) (obj : F → Eval F) :
    Nat → F → F → F → F → Nat → List F → LoopEnd F
  | 0, ns, step, fp, xp, niter, qs => .ended ns step fp xp niter qs
  | fuel + 1, ns, step, fp, xp, niter, qs =>
    if keepGoing c step fp then
      let ev := obj ns
      let step' := newtonStep ev
      if outward c ns step' then
        .boundary ns ev step' (if ns == c.nsMin then -2 else -1) niter (ns :: qs)
      else
        nrLoop c obj fuel (clipNs c.nsMin c.nsMax (ns + step')) step' ev.fp ns (niter + 1) (ns :: qs)
    else .ended ns step fp xp niter qs

variable [OfNat F 1]

/-- `NR1dNsMinimizerImpl.minimize`; `.error` = the `ValueError` for an initial value below `ns_min`.
The final test is `niter >= max_steps` (so a negative `max_steps` is reported as not converged). -/
def nr (c : NRCfg F) (obj : F → Eval F) (ns0 : F) : Except String (NROut F) :=
  if ns0 < c.nsMin then .error "ValueError:initial-below-ns_min"
  else
    match nrLoop c obj c.steps ns0 (c.nsTol + 1) c.fp0 ns0 0 [] with
    | .boundary ns ev step flag niter qs =>
        .ok { x := ns, f := ev.f, flag := if decide (c.maxSteps ≤ (niter : Int)) then 1 else flag, niter := niter,
              lastStep := step, lastFp := ev.fp, xPrev := ns, atBoundary := true,
              queries := qs.reverse }
    | .ended ns step fp xp niter qs =>
        -- "Once converged evaluate function at minimum value"
        let ev := obj ns
        .ok { x := ns, f := ev.f, flag := if decide (c.maxSteps ≤ (niter : Int)) then 1 else 0, niter := niter,
              lastStep := step, lastFp := fp, xPrev := xp, atBoundary := false,
              queries := (ns :: qs).reverse }

/-- `NR1dNsMinimizerImpl.has_converged` -/
def nrConverged (o : NROut F) : Bool := decide (o.flag ≤ 0)

end nr

/-! ### scan of the second parameter -/

section scan
variable {F : Type}

/-- `numpy.linspace(start, stop, num)` (endpoint=True, scalar arguments), operation by operation. -/
def linspace [Add F] [Sub F] [Mul F] [Div F] [BEq F] [OfNat F 0] [Transc F]
    (start stop : F) (num : Nat) : List F :=
  let delta := stop - start
  let div := num - 1
  let ys : List F :=
    if 0 < div then
      let d : F := Transc.ofN div
      let step := delta / d
      if step == 0 then (List.range num).map (fun i => ((Transc.ofN i : F) / d) * delta + start)
      else (List.range num).map (fun i => (Transc.ofN i : F) * step + start)
    else (List.range num).map (fun i => (Transc.ofN i : F) * delta + start)
  if 1 < num then ys.dropLast ++ [stop] else ys

/-- result of the scan: value of the 2nd parameter of the best fit, its NR result, summed niter,
number of scan points -/
structure ScanOut (F : Type) where
  p2 : F
  best : NROut F
  niterTotal : Nat
  nSteps : Nat

/-- the `for p2_value in p2_scan_values` loop: strict best-of (`fmin < best_fmin`), an exception of
the inner minimiser propagates. -/
def scanFold [LT F] [DecidableLT F] (nrAt : F → Except String (NROut F)) :
    List F → Option (F × NROut F) → Nat → Except String (Option (F × NROut F) × Nat)
  | [], best, tot => .ok (best, tot)
  | p2 :: rest, best, tot =>
    match nrAt p2 with
    | .error e => .error e
    | .ok r =>
      let best' := match best with
        | none => some (p2, r)
        | some (bp, b) => if r.f < b.f then some (p2, r) else some (bp, b)
      scanFold nrAt rest best' (tot + r.niter)

/-- `NRNsScan2dMinimizerImpl.minimize` for given scan values -/
def scan [LT F] [DecidableLT F] (nrAt : F → Except String (NROut F)) (p2s : List F) :
    Except String (ScanOut F) :=
  match scanFold nrAt p2s none 0 with
  | .error e => .error e
  | .ok (none, _) => .error "TypeError:no-scan-point"
  | .ok (some (p2, b), tot) => .ok { p2 := p2, best := b, niterTotal := tot, nSteps := p2s.length }

end scan

/-- `int((p2_high-p2_low)/p2_scan_step)+1` for doubles (truncation toward zero) -/
def scanCountFloat (lo hi step : Float) : Nat :=
  (((hi - lo) / step).toInt64.toInt + 1).toNat

/-- the number of scan values with the error paths of the code: `int(inf)` → `OverflowError`, `int(nan)` →
`ValueError`, a negative count → `ValueError` of `numpy.linspace` (a count of 0 gives no scan value, which
`scan` reports as the `TypeError` the code runs into) -/
def scanCountFloatE (lo hi step : Float) : Except String Nat :=
  let q := (hi - lo) / step
  if q.isNaN then .error "ValueError:int(nan)"
  else if q.isInf then .error "OverflowError:int(inf)"
  else
    let n := q.toInt64.toInt + 1
    if n < 0 then .error "ValueError:negative-number-of-samples" else .ok n.toNat

/-! ### the wrapper `Minimizer.minimize` -/

/-- what the wrapper sees of one attempt of the implementation:
`(xmin, fmin, has_converged(status), is_repeatable(status))` -/
structure Attempt (F : Type) where
  x : List F
  f : F
  converged : Bool
  repeatable : Bool

structure WrapOut (F : Type) where
  x : List F
  f : F
  reps : Nat
  reevaluated : Bool

section wrapper
variable {F : Type}

/-- the repetition loop; `attempt k` is the outcome of the k-th call of the implementation
(k = 0: initials of the parameter set, k ≥ 1: random initials); `fuel = max_repetitions - reps`.
Returns the last outcome and `reps`. -/
def wrapLoop (attempt : Nat → Attempt F) : Nat → Nat → Attempt F → Attempt F × Nat
  | 0, reps, cur => (cur, reps)
  | fuel + 1, reps, cur =>
    if !cur.converged && cur.repeatable then wrapLoop attempt fuel (reps + 1) (attempt (reps + 1))
    else (cur, reps)

variable [LT F] [DecidableLT F]

/-- `np.where(condmax, hi, np.where(condmin, lo, x))` with both conditions taken on the original x -/
def clip1 (b : F × F) (x : F) : F := if b.2 < x then b.2 else if x < b.1 then b.1 else x

def outOfBounds (b : F × F) (x : F) : Bool := decide (x < b.1) || decide (b.2 < x)

def clipAll : List F → List (F × F) → List F
  | x :: xs, b :: bs => clip1 b x :: clipAll xs bs
  | _, _ => []

def anyOut : List F → List (F × F) → Bool
  | x :: xs, b :: bs => outOfBounds b x || anyOut xs bs
  | _, _ => false

/-- `np.any(np.isnan(xmin))`: a value that is not equal to itself (for IEEE doubles exactly NaN; never for
a lawful `==`). -/
def hasNaN [BEq F] (xs : List F) : Bool := xs.any (fun v => !(v == v))

/-- `Minimizer.minimize`; `.error` = the `ValueError`s "did not converge" and "fit values contain NaN".
`func` is the function value of the objective (first element of what the objective returns). -/
def wrapper [BEq F] (attempt : Nat → Attempt F) (maxReps : Nat) (bounds : List (F × F)) (func : List F → F) :
    Except String (WrapOut F) :=
  let r := wrapLoop attempt maxReps 0 (attempt 0)
  if !r.1.converged then .error "ValueError:not-converged"
  else if hasNaN r.1.x then .error "ValueError:nan"
  else if anyOut r.1.x bounds then
    let x' := clipAll r.1.x bounds
    .ok { x := x', f := func x', reps := r.2, reevaluated := true }
  else .ok { x := r.1.x, f := r.1.f, reps := r.2, reevaluated := false }

/-- `ScipyMinimizerImpl.minimize`, method COBYLA: the bounds are handed to scipy as inequality
constraints `g(x) ≥ 0`; for parameter `i` with bounds `(lb, ub)`: `x[i] - lb` and `ub - x[i]`, each
closure bound to *its own* `i`, `lb`, `ub`.  `none` = `IndexError` (x shorter than the bounds). -/
def cobylaConstraintsFrom [Sub F] (i : Nat) : List (F × F) → List (List F → Option F)
  | [] => []
  | b :: bs =>
    (fun x => (x[i]?).map (fun v => v - b.1)) :: (fun x => (x[i]?).map (fun v => b.2 - v)) ::
      cobylaConstraintsFrom (i + 1) bs

def cobylaConstraints [Sub F] (bounds : List (F × F)) : List (List F → Option F) :=
  cobylaConstraintsFrom 0 bounds

/-- `LLHRatio.maximize`: the objective handed to the minimiser is `-llh`, the reported maximum is
`-fmin`. -/
def maximize [BEq F] [Neg F] (attempt : Nat → Attempt F) (maxReps : Nat) (bounds : List (F × F))
    (llh : List F → F) : Except String (F × List F × Nat) :=
  match wrapper attempt maxReps bounds (fun x => -(llh x)) with
  | .error e => .error e
  | .ok o => .ok (-o.f, o.x, o.reps)

end wrapper

/-! ### status → decision tables of the implementations (`has_converged`, `is_repeatable`) -/

def isPrefixL : List Char → List Char → Bool
  | [], _ => true
  | _ :: _, [] => false
  | a :: as, b :: bs => a == b && isPrefixL as bs

def isInfixL (needle : List Char) : List Char → Bool
  | [] => needle.isEmpty
  | c :: cs => isPrefixL needle (c :: cs) || isInfixL needle cs

/-- `'needle' in str(task)` -/
def contains (hay needle : String) : Bool := isInfixL needle.toList hay.toList

/-- `LBFGSMinimizerImpl.has_converged`: `status['warnflag'] == 0` -/
def lbfgsConverged (warnflag : Int) : Bool := warnflag == 0

/-- `LBFGSMinimizerImpl.is_repeatable`: warnflag 2 and the task message names the `FACTR` stop or an
abnormal line-search termination (`'ABNORMAL'` covers the message of old and new scipy versions) -/
def lbfgsRepeatable (warnflag : Int) (task : String) : Bool :=
  warnflag == 2 && (contains task "FACTR" || contains task "ABNORMAL")

/-- `CRSMinimizerImpl.minimize`: `"success": 0 < status < 5` (nlopt result codes 1..4; 5 = maxeval and
6 = maxtime reached are not convergence) -/
def crsSuccess (code : Int) : Bool := decide (0 < code) && decide (code < 5)

/-- the implementations of the package: what `has_converged` / `is_repeatable` read -/
inductive ImplStatus where
  | lbfgs (warnflag : Int) (task : String)
  | scipy (success : Bool)
  | iminuit (success : Bool)
  | crs (code : Int)
  | nr (warnflag : Int)

def implConverged : ImplStatus → Bool
  | .lbfgs wf _ => lbfgsConverged wf
  | .scipy ok => ok
  | .iminuit ok => ok
  | .crs code => crsSuccess code
  | .nr wf => decide (wf ≤ 0)

def implRepeatable : ImplStatus → Bool
  | .lbfgs wf task => lbfgsRepeatable wf task
  | .scipy _ => false
  | .iminuit _ => true
  | .crs _ => true
  | .nr _ => false

/-- one attempt of a real implementation as the wrapper sees it -/
def attemptOfStatus {F : Type} (x : List F) (f : F) (st : ImplStatus) : Attempt F :=
  { x := x, f := f, converged := implConverged st, repeatable := implRepeatable st }

/-- `ScipyMinimizerImpl.minimize`: what happens to the bounds for a given method -/
inductive BoundsMode where
  | native        -- handed to scipy as `bounds=`
  | constraints   -- COBYLA: translated into inequality constraints, `bounds=None`
  | dropped       -- "does not support bounds. Continue at your own risk!", `bounds=None`
  deriving DecidableEq, Repr

def scipyBoundsMode (method : String) : BoundsMode :=
  if method == "L-BFGS-B" || method == "TNC" || method == "SLSQP" then .native
  else if method == "COBYLA" then .constraints
  else .dropped

/-! ### the generic objective of `LLHRatio.maximize` and exceptions inside the wrapper -/

/-- `negative_llhratio_func`: `(-f, -grads)` of `evaluate`, counting the calls -/
def negFunc {F : Type} [Neg F] (evaluate : List F → F × List F) (x : List F) : F × List F :=
  let r := evaluate x
  (-r.1, r.2.map (fun g => -g))

/-- `negative_llhratio_func_nr1d_ns` of `TCLLHRatio.maximize_with_1d_newton_rapson_minimizer`: value, first and
second derivative w.r.t. the fit parameter `nsIdx` of the negated llh ratio, all taken **at the point asked for**
(the source parameters are derived from that point on every call).  `none` = `IndexError`. -/
def negNrFunc {F : Type} [Neg F] (evaluate : List F → F × List F) (grad2 : List F → F) (nsIdx : Nat)
    (x : List F) : Option (Eval F) :=
  let r := evaluate x
  (r.2[nsIdx]?).map (fun g => { f := -r.1, fp := -g, fpp := -(grad2 x) })

section wrapperE
variable {F : Type} [LT F] [DecidableLT F] [BEq F]

/-- the repetition loop when a call of the implementation may raise (`.error`): the exception leaves
`Minimizer.minimize` at once -/
def wrapLoopE (attempt : Nat → Except String (Attempt F)) :
    Nat → Nat → Attempt F → Except String (Attempt F × Nat)
  | 0, reps, cur => .ok (cur, reps)
  | fuel + 1, reps, cur =>
    if !cur.converged && cur.repeatable then
      match attempt (reps + 1) with
      | .error e => .error e
      | .ok a => wrapLoopE attempt fuel (reps + 1) a
    else .ok (cur, reps)

/-- `Minimizer.minimize` with an implementation and an objective that may raise -/
def wrapperE (attempt : Nat → Except String (Attempt F)) (maxReps : Nat) (bounds : List (F × F))
    (func : List F → Except String F) : Except String (WrapOut F) :=
  match attempt 0 with
  | .error e => .error e
  | .ok a0 =>
    match wrapLoopE attempt maxReps 0 a0 with
    | .error e => .error e
    | .ok r =>
      if !r.1.converged then .error "ValueError:not-converged"
      else if hasNaN r.1.x then .error "ValueError:nan"
      else if anyOut r.1.x bounds then
        let x' := clipAll r.1.x bounds
        match func x' with
        | .error e => .error e
        | .ok v => .ok { x := x', f := v, reps := r.2, reevaluated := true }
      else .ok { x := r.1.x, f := r.1.f, reps := r.2, reevaluated := false }

end wrapperE

/-! ### `FuncWithGradsFunctor` (minimizers/iminuit.py) and the life time of its cache -/

section functor
variable {F : Type} [BEq F]

/-- state of a `FuncWithGradsFunctor`: `(_cache_x, _cache_f, _cache_grads)` (`none` before the first call)
and the number of calls of the wrapped function (cost; diagnostic only) -/
structure FunctorState (F : Type) where
  cache : Option (List F × F × List F)
  ncalls : Nat

def FunctorState.empty : FunctorState F := { cache := none, ncalls := 0 }

/-- common part of `get_f` / `get_grads`: a hit (`np.all(x == cache_x)`) answers from the cache, otherwise
the function is called with *the functor's own* `func_args` (here: `func` is the function with its
arguments bound) and the one-entry cache is replaced. -/
def functorStep (func : List F → F × List F) (s : FunctorState F) (x : List F) :
    FunctorState F × (F × List F) :=
  match s.cache with
  | some (cx, cf, cg) =>
    if x == cx then (s, (cf, cg))
    else let r := func x; ({ cache := some (x, r.1, r.2), ncalls := s.ncalls + 1 }, r)
  | none => let r := func x; ({ cache := some (x, r.1, r.2), ncalls := s.ncalls + 1 }, r)

/-- a sequence of `get_f` / `get_grads` calls at the given points on one functor: what each call sees
(value and gradients; `get_f` returns the first, `get_grads` the second component) -/
def functorRun (func : List F → F × List F) : FunctorState F → List (List F) → List (F × List F) × FunctorState F
  | s, [] => ([], s)
  | s, x :: xs =>
    let r := functorStep func s x
    let rest := functorRun func r.1 xs
    (r.2 :: rest.1, rest.2)

/-- `IMinuitMinimizerImpl.minimize` called several times on one object: every call builds a *new* functor
from that call's `func` and `func_args` (`calls`: per call the bound function and the points the optimiser
asks for); nothing is carried from one call to the next. -/
def functorCalls (calls : List ((List F → F × List F) × List (List F))) : List (List (F × List F)) :=
  calls.map (fun c => (functorRun c.1 FunctorState.empty c.2).1)

end functor

end Minimizer
