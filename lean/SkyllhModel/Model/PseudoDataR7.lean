/-
  Model/PseudoDataR7.lean — round 7 additions to the pseudo-data model of C07 (core Lean only).

  * `scrambleData`: `DataScrambler.scramble_data(rss, dataset, data, copy)` as it is coded — `if copy: data = data.copy()`,
    then the assignments of the scrambling method into `data` — with the `copy` flag as a parameter.  The flag the fixed
    background generation method passes (`copy=True`) is read from the current source (`Generated/C07.lean`).
  * `injectPlan`: the loop that injects signal events into the pseudo data, as coded twice: in
    `Analysis.generate_signal_events` and in `Analysis.do_trial_with_given_bkg_and_sig_pseudo_data`
    (`None` signal: nothing; `None` events: the signal container itself becomes the pseudo data; else `events.append(sig)`).
  * `GOp7` / `compile7` / `gstep7`: calls composed of these, with Python's exception semantics for the part of a call in which
    an exception does occur in practice (`append` of a signal array whose fields do not cover the fields of the events raises
    `KeyError`): the first failing container operation of `Plan.first` aborts the call — nothing after it is executed, the
    roles (`tdm.events`) stay, no handle is returned.  `Plan.rest` keeps the semantics of `Pseudo.gstep`.
  * `raRangeOf`: the `ra_range` setter of `UniformRAScramblingMethod` (`None` = the default range, read from the source).
-/
import SkyllhModel.Model.PseudoData

namespace Pseudo
open Store

/-- `DataScrambler.scramble_data` on container `c`; `n0` = the id a new container gets.  Operations and the container that is
returned (the copy, or `c` itself for in-place scrambling). -/
def scrambleData (n0 c : Nat) (copy : Bool) (scr : Option Scr) (vals : List Col) : List Op × Nat :=
  if copy then ([.copy c none] ++ setItems n0 (scrSets scr vals), n0)
  else (setItems c (scrSets scr vals), c)

/-- injection of the signal container `sig` into the pseudo data `events` (either may be `None`) -/
def injectPlan (events sig : Option Nat) : List Op × Option Nat :=
  match sig, events with
  | none, ev => ([], ev)
  | some s, none => ([], some s)
  | some s, some b => ([.append b s], some b)

/-- `UniformRAScramblingMethod.ra_range = value`: `None` selects the default range -/
def raRangeOf {F : Type} (dflt : F × F) : Option (F × F) → F × F
  | none => dflt
  | some r => r

inductive GOp7
  | base (op : GOp)
  /-- `DataScrambler.scramble_data(data=c, copy=copy)` called by the user on a container -/
  | scramble (c : Nat) (copy : Bool) (scr : Option Scr) (vals : List Col)
  /-- `FixedScrambledExpDataI3BkgGenMethod.generate_events` with the value of its `copy=` keyword as a parameter -/
  | fixedBkg (copy : Bool) (scr : Scr) (vals : List Col)
  /-- `Analysis.generate_signal_events(mean_n_sig, events_list=[events])`; `sig = none`: `mean_n_sig == 0` or no event drawn -/
  | inject (events : Option Nat) (sig : Option (List (Name × Col)))
  /-- `Analysis.do_trial_with_given_bkg_and_sig_pseudo_data(bkg_events_list=[b], sig_events_list=[s])`: merge, initialise the
  trial on the merged events, evaluate (assign the global-fit-parameter data fields) -/
  | trialBkgSig (b s : Option Nat) (cfg : TrialCfg) (fields : List (Name × Col))
  deriving Repr

structure Plan where
  first : List Op          -- executed with exception semantics: the first failing operation aborts the call
  rest : List Op
  roles : Roles            -- the roles after a call that did not raise
  handle : Option Nat
  raises : Bool            -- the call raises before any container operation (`len(None)` in `initialize_trial`)
  deriving Repr

def compile7 (n0 : Nat) (r : Roles) : GOp7 → Plan
  | .base op =>
    let p := compile n0 r op
    ⟨[], p.1, p.2.1, p.2.2, false⟩
  | .scramble c copy scr vals =>
    let p := scrambleData n0 c copy scr vals
    ⟨[], p.1, r, some p.2, false⟩
  | .fixedBkg copy scr vals =>
    let p := scrambleData n0 r.exp copy (some scr) vals
    ⟨[], p.1, r, some p.2, false⟩
  | .inject events sig =>
    match sig with
    | none => ⟨[], [], r, events, false⟩
    | some cols =>
      let p := injectPlan events (some n0)
      ⟨[.new cols] ++ p.1, [], r, p.2, false⟩
  | .trialBkgSig b s cfg fields =>
    let m := injectPlan b s
    match m.2 with
    | none => ⟨[], [], r, none, true⟩
    | some e =>
      let t := trialOps n0 e cfg
      ⟨m.1, t.1 ++ setItems t.2 fields, { r with events := some t.2 }, some t.2, false⟩

/-- container operations with exception semantics: stops at the first operation that raises; `true` = none raised -/
def runHE : St → List Op → St × Bool
  | s, [] => (s, true)
  | s, op :: r =>
    match stepH s op with
    | (s', .ok _) => runHE s' r
    | (s', .error _) => (s', false)

/-- one call: new state, returned handle, `true` = the call returned (did not raise) -/
def gstep7 (g : G) (op : GOp7) : G × Option Nat × Bool :=
  let p := compile7 g.st.conts.length g.roles op
  if p.raises then (g, none, false) else
  match runHE g.st p.first with
  | (s, false) => (⟨s, g.roles⟩, none, false)
  | (s, true) => (⟨runH s p.rest, p.roles⟩, p.handle, true)

/-- a history of calls; the caller catches an exception and goes on -/
def grun7 (g : G) : List GOp7 → G
  | [] => g
  | op :: r => grun7 (gstep7 g op).1 r

/-- `Analysis.do_trial`: `generate_pseudo_data` — the background of one generation method, then `generate_signal_events` onto it
(`sig = none`: `mean_n_sig == 0`) — and `do_trial_with_given_pseudo_data` on the result (initialise the trial, evaluate).  An
exception in any stage ends the call; `true` = the call returned. -/
def doTrial (g : G) (bkg : GOp7) (sig : Option (List (Name × Col))) (cfg : TrialCfg) (fields : List (Name × Col)) : G × Bool :=
  let s1 := gstep7 g bkg
  if !s1.2.2 then (s1.1, false) else
  let s2 := gstep7 s1.1 (.inject s1.2.1 sig)
  if !s2.2.2 then (s2.1, false) else
  let s3 := gstep7 s2.1 (.trialBkgSig s2.2.1 none cfg fields)
  (s3.1, s3.2.2)

/-- handles given by the caller are generated containers; in-place scrambling is not applied to a stored container -/
def HandlesOK7 (r : Roles) : GOp7 → Prop
  | .base op => HandlesOK r op
  | .scramble c copy _ _ => copy = true ∨ (c ≠ r.exp ∧ c ≠ r.mc)
  | .fixedBkg copy _ _ => copy = true
  | .inject events _ => ∀ b, events = some b → b ≠ r.exp ∧ b ≠ r.mc
  | .trialBkgSig b s _ _ => (∀ x, b = some x → x ≠ r.exp ∧ x ≠ r.mc) ∧ (∀ x, s = some x → x ≠ r.exp ∧ x ≠ r.mc)

end Pseudo
