/-
  Model of skyllh/core/parameters.py (`ParameterGrid`, `IrregularParameterGrid`) and
  skyllh/core/interpolate.py (`Linear1D…`/`Parabola1DGridManifoldInterpolationMethod`)
  — property C15.

  The numeric code is written once against the standard notation classes plus the law-free
  class `RoundOps` (floor to an integer, integer to scalar), so that the same definitions
    * run on `Float` in `Driver/C15.lean` (same IEEE operations in the same order as numpy:
      `np.around(x, d) = rint(x * 10^d) / 10^d`, `x % 1 = x - floor x`, `astype(int64)`),
    * run on `Rat` (exact), and
    * are reasoned about over ℚ (rounding) and ℝ / any field (interpolation) in `Props/C15.lean`.
  The model mirrors the code *after* the two `fix:` commits of this property
  (`np.floor` instead of truncation in `_calc_floatD_and_intD`, exact comparison of the
  cached `x0` in `Linear1D…._is_cached`).
-/

/-- floor to an integer and the embedding of the integers; no laws. -/
class RoundOps (F : Type) where
  floorI : F → Int
  ofI : Int → F

namespace Grid
open RoundOps

/-! ### `Float` and `Rat` instances -/

/-- exact integer value of an integral double `|f| ≥ 2^52` (NaN / ±inf give 0) -/
def floatIntExact (f : Float) : Int :=
  let bits : Nat := f.toBits.toNat
  let e : Nat := (bits / 2 ^ 52) % 2048
  let m : Nat := bits % 2 ^ 52
  let neg := bits / 2 ^ 63 == 1
  if e == 2047 ∨ e < 1075 then 0
  else
    let v : Int := ((2 ^ 52 + m) * 2 ^ (e - 1075) : Nat)
    if neg then -v else v

/-- `floor` of a double as an exact integer -/
def floatFloorI (x : Float) : Int :=
  let f := x.floor
  if f.abs < 9.0e18 then f.toInt64.toInt else floatIntExact f

instance : RoundOps Float := ⟨floatFloorI, Float.ofInt⟩
instance : RoundOps Rat := ⟨Rat.floor, fun n => (n : Rat)⟩

/-- exact rational value of a finite double (NaN / ±inf give 0) -/
def floatToRat (f : Float) : Rat :=
  let bits : Nat := f.toBits.toNat
  let e : Nat := (bits / 2 ^ 52) % 2048
  let m : Nat := bits % 2 ^ 52
  let neg := bits / 2 ^ 63 == 1
  if e == 2047 then 0
  else
    let (mant, ex) : Nat × Int := if e == 0 then (m, -1074) else (2 ^ 52 + m, (e : Int) - 1075)
    let v : Rat := if ex ≥ 0 then ((mant * 2 ^ ex.toNat : Nat) : Rat) else (mant : Rat) / ((2 ^ (-ex).toNat : Nat) : Rat)
    if neg then -v else v

/-! ### decimal rounding (`numpy.rint`, `numpy.around`) -/

section rounding
variable {F : Type} [Add F] [Sub F] [Mul F] [Div F] [LT F] [DecidableLT F] [RoundOps F]

/-- 1/2 (exact in binary floating point) -/
def half : F := ofI 1 / ofI 2

/-- `numpy.rint`: round half to even, as an integer -/
def rintI (x : F) : Int :=
  let n := floorI x
  let d := x - ofI n
  if d < half then n else if half < d then n + 1 else if n % 2 = 0 then n else n + 1

/-- `numpy.rint` as a scalar.  A result of zero keeps the sign of the argument (`rint(-0.3) = -0.0` in IEEE
arithmetic; over ℚ/ℝ the product is just 0), so the sign of a zero grid member is modelled, too. -/
def rint (x : F) : F :=
  let n := rintI x
  if n = 0 then ofI 0 * x else ofI n

/-- `10 ** d` (exact in double precision for `d ≤ 22`) -/
def p10 (d : Nat) : F := ofI ((10 : Int) ^ d)

/-- `numpy.around(x, d)` for `d ≥ 0`: multiply, `rint`, divide. -/
def aroundDec (d : Nat) (x : F) : F := rint (x * p10 d) / p10 d

/-- `x % 1` (`numpy.remainder(x, 1)`) -/
def mod1 (x : F) : F := x - ofI (floorI x)

end rounding

/-! ### `ParameterGrid` -/

/-- the rounded grid descriptors from which every grid point is recomputed:
`_lower_bound`, `_delta`, `_decimals` -/
structure PGrid (F : Type) where
  lb : F
  delta : F
  dec : Nat
  /-- the literal number of decimals `floatD` is rounded to (`np.around(floatD, 9)`), read from
  the source into `Generated/C15.lean` -/
  fd : Nat

section pgrid
variable {F : Type} [Add F] [Sub F] [Mul F] [Div F] [LT F] [DecidableLT F] [RoundOps F]

/-- `ParameterGrid.__init__`: `_delta = around(delta, decimals)`,
`_lower_bound = around(grid[0], decimals)` -/
def mkGrid (g0 delta : F) (dec fd : Nat) : PGrid F := ⟨aroundDec dec g0, aroundDec dec delta, dec, fd⟩

/-- `ParameterGrid.__init__` with its argument checks: `none` = `ValueError` for more than
`maxDec` decimals (the literal 16 of the source), a negative number of decimals, or a spacing that
is not positive after rounding. -/
def mkGridChecked (g0 delta : F) (dec : Int) (fd maxDec : Nat) : Option (PGrid F) :=
  if dec < 0 ∨ (maxDec : Int) < dec then none
  else
    let G := mkGrid g0 delta dec.toNat fd
    -- the spacing has to be positive after rounding to `dec` decimals (zero, negative, nan: refused)
    if ofI 0 < G.delta then some G else none

/-- `_calc_floatD_and_intD`: `floatD = around((value - lb)/delta, 9)` (`fd = 9`) -/
def floatD (G : PGrid F) (v : F) : F := aroundDec G.fd ((v - G.lb) / G.delta)

/-- `intD = floor(floatD).astype(int64)` -/
def intD (G : PGrid F) (v : F) : Int := floorI (floatD G v)

/-- grid point for a (float) number of delta intervals: `around(lb + k*delta, decimals)` -/
def gpF (G : PGrid F) (k : F) : F := aroundDec G.dec (G.lb + k * G.delta)

/-- the `k`-th grid point -/
def gp (G : PGrid F) (k : Int) : F := gpF G (ofI k)

def roundLower (G : PGrid F) (v : F) : F := gpF G (ofI (intD G v))
def roundUpper (G : PGrid F) (v : F) : F := gpF G (ofI (intD G v + 1))
/-- `lb + (around(floatD % 1, 0) + intD)*delta`, rounded to `decimals` -/
def roundNearest (G : PGrid F) (v : F) : F := gpF G (rint (mod1 (floatD G v)) + ofI (intD G v))

/-- the integer indices behind the three rounding functions -/
def kLower (G : PGrid F) (v : F) : Int := intD G v
def kUpper (G : PGrid F) (v : F) : Int := intD G v + 1
def kNearest (G : PGrid F) (v : F) : Int := rintI (mod1 (floatD G v)) + intD G v

/-- the `grid` setter: every given value is replaced by its nearest grid point -/
def buildGrid (G : PGrid F) (arr : List F) : List F := arr.map (roundNearest G)

/-- `add_extra_lower_and_upper_bin`: the new lower bound is *not* rounded (the code assigns
`_lower_bound` directly); `none` = the grid was empty (IndexError). -/
def addExtra (G : PGrid F) (grid : List F) : Option (PGrid F × List F) :=
  match grid.head?, grid.getLast? with
  | some a, some z =>
    let lb' := a - G.delta
    let G' : PGrid F := { G with lb := lb' }
    some (G', buildGrid G' ([lb'] ++ grid ++ [z + G.delta]))
  | _, _ => none

end pgrid

/-- `get_number_of_float_decimals(value)`: position of the last non-zero digit of
`'{:.16f}'.format(value)` (correctly rounded decimal conversion = half-even on the exact value). -/
def decimalsOf (x : Rat) : Nat :=
  let n := (rintI ((if x < 0 then -x else x) * p10 16)).toNat % 10 ^ 16
  if n = 0 then 0 else
    let rec tz (fuel : Nat) (n : Nat) (acc : Nat) : Nat :=
      match fuel with
      | 0 => acc
      | fuel + 1 => if n % 10 = 0 then tz fuel (n / 10) (acc + 1) else acc
    16 - tz 16 n 0

/-! ### `IrregularParameterGrid` (searchsorted on a sorted grid) -/

section irregular
variable {F : Type} [LE F] [DecidableLE F] [LT F] [DecidableLT F]

/-- `np.searchsorted(a, v, side='right')` for sorted `a` -/
def ssRight (a : List F) (v : F) : Nat := a.countP (fun e => decide (e ≤ v))
/-- `np.searchsorted(a, v, side='left')` for sorted `a` -/
def ssLeft (a : List F) (v : F) : Nat := a.countP (fun e => decide (e < v))

/-- `grid[searchsorted(grid, v, 'right') - 1]`; index `-1` wraps around to the last element as in
Python; `none` only for the empty grid. -/
def irrLower (g : List F) (v : F) : Option F :=
  let c := ssRight g v
  if c = 0 then g.getLast? else g[c - 1]?

/-- `grid[searchsorted(grid, v, 'right')]`; `none` = IndexError (value at or above the last point). -/
def irrUpper (g : List F) (v : F) : Option F := g[ssRight g v]?

variable [Add F] [Div F] [OfNat F 2]

/-- `(grid[1:] + grid[:-1])/2` -/
def irrMids (g : List F) : List F := List.zipWith (fun b a => (b + a) / 2) g.tail g

/-- `grid[searchsorted(grid_middle, v, 'left')]` (a value exactly in the middle goes down) -/
def irrNearest (g : List F) (v : F) : Option F := g[ssLeft (irrMids g) v]?

/-- `IrregularParameterGrid.add_extra_lower_and_upper_bin` (`none` = fewer than 2 points) -/
def irrAddExtra [Sub F] (g : List F) : Option (List F) :=
  match g, g.reverse with
  | a :: b :: _, z :: y :: _ => some ([a - (b - a)] ++ g ++ [z + (z - y)])
  | _, _ => none

end irregular

/-! ### line and parabola parametrisation -/

section interp
variable {F : Type} [Add F] [Sub F] [Mul F] [Div F] [OfNat F 1] [OfNat F 2]

/-- `m = (M1 - M0) / (x1 - x0)` -/
def lineM (x0 x1 M0 M1 : F) : F := (M1 - M0) / (x1 - x0)
/-- `b = M0 - m*x0` -/
def lineB (x0 x1 M0 M1 : F) : F := M0 - lineM x0 x1 M0 M1 * x0
/-- `values = m*x + b` -/
def lineValue (x0 x1 M0 M1 x : F) : F := lineM x0 x1 M0 M1 * x + lineB x0 x1 M0 M1
/-- the reported gradient is `m` -/
def lineGrad (x0 x1 M0 M1 : F) : F := lineM x0 x1 M0 M1

/-- `a = 0.5*(M0 - 2.*M1 + M2) / dx**2` -/
def parA (dx M0 M1 M2 : F) : F := (1 / 2) * (M0 - 2 * M1 + M2) / (dx * dx)
/-- `b = 0.5*(M2 - M0) / dx` -/
def parB (dx M0 M2 : F) : F := (1 / 2) * (M2 - M0) / dx
/-- `values = a * (x-x1)**2 + b * (x-x1) + M1` -/
def parValue (x1 dx M0 M1 M2 x : F) : F :=
  parA dx M0 M1 M2 * ((x - x1) * (x - x1)) + parB dx M0 M2 * (x - x1) + M1
/-- `grads = 2. * a * (x-x1) + b` -/
def parGrad (x1 dx M0 M1 M2 x : F) : F := 2 * parA dx M0 M1 M2 * (x - x1) + parB dx M0 M2

end interp

/-! ### broadcasting per-source values to the values array, and the cached call -/

/-- `TrialDataManager.broadcast_sources_array_to_values_array`: `ns[k]` = number of values
(selected events) of source `k`; a single value is used for all sources; `none` = ValueError. -/
def broadcast {F : Type} (xs : List F) (ns : List Nat) : Option (List F) :=
  match xs with
  | [x] => some (List.replicate ns.sum x)
  | _ => if xs.length = ns.length then some ((xs.zip ns).flatMap fun p => List.replicate p.2 p.1) else none

section calls
variable {F : Type} [Add F] [Sub F] [Mul F] [Div F] [LT F] [DecidableLT F] [RoundOps F]
  [OfNat F 1] [OfNat F 2] [BEq F]

/-- the cache of `Linear1DGridManifoldInterpolationMethod` -/
structure LinCache (F : Type) where
  sid : Option Int
  x0 : List F
  m : List F
  b : List F

/-- the "not cached" branch of `Linear1D….__call__`: line parameters for all values.
`Mf sid gridparams` is the manifold function (value array for the given per-source grid values
in trial-data state `sid`; `sid = none` is Python's `trial_data_state_id is None`). `none` = the broadcast raised. -/
def linCompute (G : PGrid F) (Mf : Option Int → List F → List F) (ns : List Nat) (sid : Option Int) (xs : List F) :
    Option (LinCache F) :=
  let x0 := xs.map (roundLower G)
  let x1 := xs.map (roundUpper G)
  let M0 := Mf sid x0
  let M1 := Mf sid x1
  match broadcast x0 ns, broadcast x1 ns with
  | some v0, some v1 =>
    -- the manifold function has to return one value per entry of the values array (numpy raises
    -- on arrays of different lengths; `zipWith` would silently truncate)
    if M0.length = ns.sum ∧ M1.length = ns.sum then
      let m := List.zipWith (· / ·) (List.zipWith (· - ·) M1 M0) (List.zipWith (· - ·) v1 v0)
      let b := List.zipWith (· - ·) M0 (List.zipWith (· * ·) m v0)
      some ⟨sid, x0, m, b⟩
    else none
  | _, _ => none

/-- `values = m*x + b`, `grads = m` -/
def linEval (c : LinCache F) (ns : List Nat) (xs : List F) : Option (List F × List F) :=
  match broadcast xs ns with
  | some vx => some (List.zipWith (· + ·) (List.zipWith (· * ·) c.m vx) c.b, c.m)
  | none => none

/-- one `__call__` of the linear method with its cache; returns the post-state also when the
call raises (`none`). -/
def linCall (G : PGrid F) (Mf : Option Int → List F → List F) (ns : List Nat)
    (cache : Option (LinCache F)) (sid : Option Int) (xs : List F) :
    Option (LinCache F) × Option (List F × List F) :=
  let x0 := xs.map (roundLower G)
  let fresh : Option (LinCache F) × Option (List F × List F) :=
    match linCompute G Mf ns sid xs with
    | some c' => (some c', linEval c' ns xs)
    | none => (cache, none)
  match cache with
  | some c =>
    -- `trial_data_state_id is not None and … == …`: without a state id nothing is ever taken from the cache
    if sid.isSome = true ∧ c.sid = sid ∧ (c.x0 == x0) = true then (cache, linEval c ns xs) else fresh
  | none => fresh

/-- specification: what a fresh object returns -/
def linSpec (G : PGrid F) (Mf : Option Int → List F → List F) (ns : List Nat) (sid : Option Int) (xs : List F) :
    Option (List F × List F) :=
  (linCompute G Mf ns sid xs).bind fun c => linEval c ns xs

/-- a whole history of calls on one object, starting with the given cache -/
def linRun (G : PGrid F) (Mf : Option Int → List F → List F) (ns : List Nat) :
    Option (LinCache F) → List (Option Int × List F) → List (Option (List F × List F))
  | _, [] => []
  | cache, (sid, xs) :: rest =>
    let r := linCall G Mf ns cache sid xs
    r.2 :: linRun G Mf ns r.1 rest

/-- the cache of `Parabola1DGridManifoldInterpolationMethod` -/
structure ParCache (F : Type) where
  sid : Option Int
  x1 : List F
  M1 : List F
  a : List F
  b : List F

/-- parabola parameters around the nearest grid points `x1` (`none` = the manifold function did not
return one value per entry of the values array: numpy raises, nothing is stored) -/
def parCompute (G : PGrid F) (Mf : Option Int → List F → List F) (ns : List Nat) (sid : Option Int) (xs : List F) :
    Option (ParCache F) :=
  let dx := G.delta
  let x1 := xs.map (roundNearest G)
  let x0 := x1.map fun t => roundNearest G (t - dx)
  let x2 := x1.map fun t => roundNearest G (t + dx)
  let M0 := Mf sid x0
  let M1 := Mf sid x1
  let M2 := Mf sid x2
  if M0.length = ns.sum ∧ M1.length = ns.sum ∧ M2.length = ns.sum then
    let a := (M0.zip (M1.zip M2)).map fun p => parA dx p.1 p.2.1 p.2.2
    let b := (M0.zip M2).map fun p => parB dx p.1 p.2
    some ⟨sid, x1, M1, a, b⟩
  else none

/-- `values = a*t**2 + b*t + M1`, `grads = 2.*a*t + b` for the broadcast `t = x - x1` -/
def parEval (c : ParCache F) (t : List F) : List F × List F :=
  (List.zipWith (· + ·) (List.zipWith (· + ·) (List.zipWith (· * ·) c.a (List.zipWith (· * ·) t t))
      (List.zipWith (· * ·) c.b t)) c.M1,
   List.zipWith (· + ·) (List.zipWith (fun a t => 2 * a * t) c.a t) c.b)

/-- `np.any(np.not_equal(cache_x1, x1))` negated: equal lengths or a length-1 operand (numpy
broadcasting); `none` = ValueError for other length combinations. -/
def bcastEq (a b : List F) : Option Bool :=
  if a.length = b.length then some (a == b)
  else match a, b with
    | [x], _ => some (b.all (· == x))
    | _, [y] => some (a.all (· == y))
    | _, _ => none

/-- one `__call__` of the parabola method (the *fixed* code): `x - x1` is broadcast first — this
validates the number of parameter values — and only then the cache is consulted or replaced, so a
raising call leaves the cache as it was. -/
def parCall (G : PGrid F) (Mf : Option Int → List F → List F) (ns : List Nat)
    (cache : Option (ParCache F)) (sid : Option Int) (xs : List F) :
    Option (ParCache F) × Option (List F × List F) :=
  let x1 := xs.map (roundNearest G)
  match broadcast (List.zipWith (· - ·) xs x1) ns with
  | none => (cache, none)
  | some t =>
    let fresh : Option (ParCache F) × Option (List F × List F) :=
      match parCompute G Mf ns sid xs with
      | some c' => (some c', some (parEval c' t))
      | none => (cache, none)
    match cache with
    | none => fresh
    | some c =>
      if sid.isSome = true ∧ c.sid = sid then
        match bcastEq c.x1 x1 with
        | none => (cache, none)
        | some true => (cache, some (parEval c t))
        | some false => fresh
      else fresh

/-- specification: what a fresh object returns -/
def parSpec (G : PGrid F) (Mf : Option Int → List F → List F) (ns : List Nat) (sid : Option Int) (xs : List F) :
    Option (List F × List F) :=
  match broadcast (List.zipWith (· - ·) xs (xs.map (roundNearest G))) ns with
  | none => none
  | some t => (parCompute G Mf ns sid xs).map fun c => parEval c t

def parRun (G : PGrid F) (Mf : Option Int → List F → List F) (ns : List Nat) :
    Option (ParCache F) → List (Option Int × List F) → List (Option (List F × List F))
  | _, [] => []
  | cache, (sid, xs) :: rest =>
    let r := parCall G Mf ns cache sid xs
    r.2 :: parRun G Mf ns r.1 rest

/-! ### the arrays of the manifold function as state

The manifold function may hand out arrays it keeps (a PDF set with cached values, any look-up table
keyed by the grid values): they belong to that function.  `Store` is such a table; the `…S` forms of
the calls thread it through and return the post-store.  The code only *reads* these arrays — every
arithmetic result (`M1 - M0`, `0.5*(M0 - 2.*M1 + M2)`, …) is a new array — so the post-store is the
pre-store; an in-place update (`M2 += …`) of a handed-out array would be a different model. -/

/-- arrays owned by the manifold function, keyed by (trial-data state, per-source grid values) -/
abbrev Store (F : Type) := List ((Option Int × List F) × List F)

/-- look-up (`[]` for a missing key: the calls then answer `none` through their length guard) -/
def Store.get (st : Store F) (sid : Option Int) (g : List F) : List F :=
  match st.find? (fun e => e.1.1 == sid && e.1.2 == g) with
  | some e => e.2
  | none => []

def linCallS (G : PGrid F) (ns : List Nat) (st : Store F) (cache : Option (LinCache F)) (sid : Option Int)
    (xs : List F) : Store F × (Option (LinCache F) × Option (List F × List F)) :=
  (st, linCall G st.get ns cache sid xs)

def parCallS (G : PGrid F) (ns : List Nat) (st : Store F) (cache : Option (ParCache F)) (sid : Option Int)
    (xs : List F) : Store F × (Option (ParCache F) × Option (List F × List F)) :=
  (st, parCall G st.get ns cache sid xs)

/-- a history against a store: post-store and the answers -/
def linRunS (G : PGrid F) (ns : List Nat) :
    Store F → Option (LinCache F) → List (Option Int × List F) → Store F × List (Option (List F × List F))
  | st, _, [] => (st, [])
  | st, cache, (sid, xs) :: rest =>
    let r := linCallS G ns st cache sid xs
    let t := linRunS G ns r.1 r.2.1 rest
    (t.1, r.2.2 :: t.2)

def parRunS (G : PGrid F) (ns : List Nat) :
    Store F → Option (ParCache F) → List (Option Int × List F) → Store F × List (Option (List F × List F))
  | st, _, [] => (st, [])
  | st, cache, (sid, xs) :: rest =>
    let r := parCallS G ns st cache sid xs
    let t := parRunS G ns r.1 r.2.1 rest
    (t.1, r.2.2 :: t.2)

end calls

end Grid
