/-
  Round 7 — the source loop of `SignalTimePDF._calculate_pd` as a state transition of the cached
  object (`skyllh/core/signalpdf.py`, `_calculate_pd` / `get_pd` / `initialize_for_new_trial`):

      for (src_idx, src_params_row) in enumerate(params_recarray):
          self._time_flux_profile.set_params(params)     # returns `updated`
          self._ensure_S_is_up_to_date()                 # NOT conditional on `updated`
          ... pd[src] = profile(t) / self._S  (on-time, S > 0)

  The profile object is public and shareable: between two evaluations it may have been changed from
  outside (`profile.t0 = …`, `profile.tw = …`, `profile.move(dt)`, `profile.set_params(…)`, another
  PDF sharing the object).  A parameter row whose values equal the profile's *current* values (or an
  empty row, `dtype=[]`, of a PDF without time parameters) makes `set_params` report
  `updated = False` — the refresh of `_S` must not depend on that flag.  `gated = true` is the variant
  "refresh only when `set_params` reported a change"; `gated = false` is the code as it is.

  Built on `TState2` / `ensure2` / `upToDate` of `Model/Pdf.lean` (fingerprint of interval-array
  object and profile state).  A parameter row is `none` (empty row) or `some p` (values that put the
  profile into state `p` of the profile table).
-/
import SkyllhModel.Model.Pdf

namespace Pdf

variable {F : Type}

section rows
variable [Add F] [Div F] [LE F] [DecidableLE F] [LT F] [DecidableLT F] [OfNat F 0]

/-- the densities of the event times `times` (one source) in state `s`: is_on mask, profile value
divided by the cached `_S` under the `S > 0` guard -/
def pdOfT (val : Nat → F → F) (s : TState2 F) (times : List F) : Option (List F) :=
  s.S.map (fun S => times.map (timePd (val s.prof) s.ivs S))

/-- `TimeFluxProfile.set_params(row)`: the new profile state and the `updated` flag -/
def setParamsRow (s : TState2 F) : Option Nat → TState2 F × Bool
  | none => (s, false)
  | some p => if p = s.prof then (s, false) else ({ s with prof := p }, true)

/-- one pass of the source loop: `set_params`, refresh of `_S`, densities of this source -/
def rowPass (gated : Bool) (table : Nat → F × F × (F → F → F)) (val : Nat → F → F) (times : List F)
    (s : TState2 F) (row : Option Nat) : TState2 F × Option (List F) :=
  let (s1, updated) := setParamsRow s row
  let s2 := if gated && !updated then s1 else ensure2 true table s1
  (s2, pdOfT val s2 times)

/-- `_calculate_pd(tdm, params_recarray)`: the loop over the parameter rows (sources), each source
evaluated at the event times of the trial; the result is source-major -/
def calcPdRows (gated : Bool) (table : Nat → F × F × (F → F → F)) (val : Nat → F → F) (times : List F) :
    TState2 F → List (Option Nat) → TState2 F × List (Option (List F))
  | s, [] => (s, [])
  | s, r :: rest =>
      let (s1, o) := rowPass gated table val times s r
      let (s2, os) := calcPdRows gated table val times s1 rest
      (s2, o :: os)

/-- `get_pd(tdm, params_recarray)`: the pre-calculated `_pd` when it exists and the fingerprint is
current, else `_calculate_pd` -/
def tGetRows (gated : Bool) (table : Nat → F × F × (F → F → F)) (val : Nat → F → F) (s : TState2 F)
    (times : List F) (rows : List (Option Nat)) : TState2 F × List (Option (List F)) :=
  if s.pd.isSome && upToDate true s then (s, [s.pd]) else calcPdRows gated table val times s rows

/-- `initialize_for_new_trial` of a constant PDF (`pmm = None`): `_calculate_pd` with `n` empty rows,
result kept as `_pd` (only `n = 1` keeps a `_pd` the single-source model can express).  `_calculate_pd`
never reads `_pd` and the assignment overwrites it, so the old `_pd` is dropped up front. -/
def tInitRows (gated : Bool) (table : Nat → F × F × (F → F → F)) (val : Nat → F → F) (s : TState2 F)
    (times : List F) : TState2 F :=
  let (s1, outs) := calcPdRows gated table val times { s with trial := times, pd := none } [none]
  { s1 with pd := match outs with | [o] => o | _ => none }

/-- the operations of a history -/
inductive TOp3 (F : Type) where
  | base (op : TOp2 F)                                  -- setters / outside changes / validity check (`TOp2`)
  | initRows (times : List F)                           -- `initialize_for_new_trial` (as coded: through `_calculate_pd`)
  | getRows (times : List F) (rows : List (Option Nat)) -- `get_pd(tdm, params_recarray)`; state effect

def tStep3 (gated : Bool) (table : Nat → F × F × (F → F → F)) (val : Nat → F → F) (s : TState2 F) :
    TOp3 F → TState2 F
  | .base op => tStep2 true table val s op
  | .initRows times => tInitRows gated table val s times
  | .getRows times rows => (tGetRows gated table val s times rows).1

def tRun3 (gated : Bool) (table : Nat → F × F × (F → F → F)) (val : Nat → F → F) (s : TState2 F)
    (ops : List (TOp3 F)) : TState2 F := ops.foldl (tStep3 gated table val) s

/-- specification: source `i` is evaluated with the profile state its row selects (an empty row keeps
the state the previous row left) and the normalisation of exactly that state on the current live-time -/
def rowsSpec (table : Nat → F × F × (F → F → F)) (val : Nat → F → F) (ivs : List (F × F)) (times : List F) :
    Nat → List (Option Nat) → List (Option (List F))
  | _, [] => []
  | p, r :: rest =>
      let q := r.getD p
      ((calcS table ivs q).map (fun S => times.map (timePd (val q) ivs S))) :: rowsSpec table val ivs times q rest

/-! ### `BackgroundTimePDF` (`skyllh/core/backgroundpdf.py`): pre-calculation at `initialize_for_new_trial`,
`get_pd` refuses with a RuntimeError unless `_pd` exists for the current fingerprint -/

/-- one operation on a `BackgroundTimePDF`: `initialize_for_new_trial` = `_ensure_S_is_up_to_date` +
pre-calculation (exactly `TOp2.initTrial`), setters / outside changes / validity check as in `TimePDF`,
`get_pd` has no state effect -/
def bStep (table : Nat → F × F × (F → F → F)) (val : Nat → F → F) (s : TState2 F) : TOp2 F → TState2 F
  | .getPd => s
  | op => tStep2 true table val s op

/-- `BackgroundTimePDF.get_pd`: `none` = RuntimeError (`_pd is None or not _is_S_up_to_date()`) -/
def bGet (s : TState2 F) : Option (List F) :=
  if s.pd.isNone || !upToDate true s then none else s.pd

def bRun (table : Nat → F × F × (F → F → F)) (val : Nat → F → F) (s : TState2 F)
    (ops : List (TOp2 F)) : TState2 F := ops.foldl (bStep table val) s

end rows

end Pdf
