/-
  Model of the probability densities of skyllh — property C10.

    Part 1  time PDFs        skyllh/core/pdf.py (TimePDF), core/signalpdf.py (SignalTimePDF),
                             core/backgroundpdf.py (BackgroundTimePDF) on top of
                             core/livetime.py (Model/Livetime.lean) and the box / gaussian
                             time profiles of core/flux_model.py
    Part 2  histogram PDFs   skyllh/i3/pdf.py (I3EnergyPDF: numpy.histogram2d, per-band norm,
                             `digitize - 1` lookup, validity check), core/smoothing.py,
                             i3/backgroundpdf.py (BackgroundI3SpatialPDF histogram + 1/2π)
    Part 3  point spread     core/signalpdf.py (gaussian PSF, Rayleigh PSF)

  Everything is written against the standard notation classes (+ `Transc`) so that the same
  definitions run on `Float` in `Driver/C10.lean` and are reasoned about over ordered fields / ℝ
  in `Props/C10.lean`.  `erf` is a parameter (Mathlib has none; the driver gets scipy's values
  from the harness).  The model mirrors the code *after* the three `fix:` commits of C10; the
  behaviour before the fixes is kept as `…Orig` for the `_counterexample` theorems.
-/
import SkyllhModel.Scalar
import SkyllhModel.Model.Livetime

namespace Pdf

variable {F : Type}

/-- sequential sum starting from 0 (`np.bincount` accumulation, `np.sum` over a short axis) -/
def sumSeq [Add F] [OfNat F 0] (xs : List F) : F := xs.foldl (· + ·) 0

/-! ## Part 1 — time PDFs -/

section order
variable [LE F] [DecidableLE F] [LT F] [DecidableLT F]

def maxF (a b : F) : F := if a < b then b else a
def minF (a b : F) : F := if b < a then b else a

/-- `x == 0` for floats, written with the order only -/
def isZero [OfNat F 0] (x : F) : Bool := decide (x ≤ 0) && decide (0 ≤ x)

variable [Sub F] [OfNat F 0] [OfNat F 1]

/-- `BoxTimeFluxProfile.__call__` for the stored window `[ts, te]` (closed) -/
def boxVal (ts te t : F) : F := if ts ≤ t ∧ t ≤ te then 1 else 0

/-- `BoxTimeFluxProfile.get_integral(a, b)` -/
def boxInt (ts te a b : F) : F := if ts ≤ b ∧ a ≤ te then minF b te - maxF a ts else 0

end order

section gauss
variable [Add F] [Sub F] [Mul F] [Div F] [Neg F] [LE F] [DecidableLE F] [LT F] [DecidableLT F]
  [OfNat F 0] [OfNat F 2] [OfScientific F] [Transc F]

/-- mid time of a stored window: `0.5*(self._t_stop + self._t_start)` -/
def midT (ts te : F) : F := 0.5 * (te + ts)

/-- the gaussian shape `np.exp(-dt*dt/twossq)` with the operation order of the code -/
def gaussShape (ts te σ t : F) : F :=
  let twossq := 2 * σ * σ
  let dt := t - midT ts te
  Transc.exp ((-dt) * dt / twossq)

/-- `GaussianTimeFluxProfile.__call__` for the stored window `[ts, te)` (half open) -/
def gaussVal (ts te σ t : F) : F := if ts ≤ t ∧ t < te then gaussShape ts te σ t else 0

/-- the argument at which `get_integral` evaluates `erf` for the bound `t` -/
def gaussErfArg (ts te σ t : F) : F := (t - midT ts te) / (Transc.sqrt 2 * σ)

/-- antiderivative used by `get_integral`: `sqrt(pi/2) sigma erf((t - t0)/(sqrt(2) sigma))` -/
def gaussPrim (erf : F → F) (ts te σ t : F) : F :=
  (Transc.sqrt (Transc.pi / 2) * σ) * erf (gaussErfArg ts te σ t)

/-- `GaussianTimeFluxProfile.get_integral(a, b)` -/
def gaussInt (erf : F → F) (ts te σ a b : F) : F := gaussPrim erf ts te σ b - gaussPrim erf ts te σ a

end gauss

section timepdf
variable [Add F] [Div F] [LE F] [DecidableLE F] [LT F] [DecidableLT F] [OfNat F 0]

/-- `TimePDF._calculate_sum_of_ontime_time_flux_profile_integrals`, as coded: the profile
integrals over `get_uptime_intervals_between(t_start, t_stop)` (`none` = IndexError there). -/
def timeS (integ : F → F → F) (ivs : List (F × F)) (ts te : F) : Option F :=
  (Livetime.betweenIdx ivs ts te).map (fun l => sumSeq (l.map (fun p => integ p.1 p.2)))

/-- the same with the specification form of the window query (`Props/C14`: they agree) -/
def timeSSpec (integ : F → F → F) (ivs : List (F × F)) (ts te : F) : F :=
  sumSeq ((Livetime.betweenSpec ivs ts te).map (fun p => integ p.1 p.2))

/-- `SignalTimePDF._calculate_pd` / `BackgroundTimePDF.initialize_for_new_trial` for one event
time: zero outside on-time and when the profile has no overlap with the on-time (`S = 0`). -/
def timePd (val : F → F) (ivs : List (F × F)) (S t : F) : F :=
  if Livetime.isOn ivs t = true ∧ 0 < S then val t / S else 0

/-- before `fix: time PDFs are zero … when S = 0`: `0/0 = nan`, `1/0 = inf` for on-time events -/
def timePdOrig (val : F → F) (ivs : List (F × F)) (S t : F) : F :=
  if Livetime.isOn ivs t = true then val t / S else 0

/-- `BackgroundTimePDF.initialize_for_new_trial` / `SignalTimePDF._calculate_pd`, as coded, for a whole
trial: a fresh zero array, then the masked assignment `pd[on] = profile(times[on]) / S` (only when
`S > 0`).  `prev` is whatever the object held from the previous trial — the code ignores it. -/
def trialPd (val : F → F) (ivs : List (F × F)) (S : F) (_prev : Option (List F)) (times : List F) : List F :=
  let zeros := times.map (fun _ => (0 : F))
  List.zipWith (fun z t => if Livetime.isOn ivs t = true ∧ 0 < S then val t / S else z) zeros times

/-- a variant that re-uses the previous trial's array when the event count is unchanged and only
overwrites the on-time entries (not the code; kept for `c10_time_trial_reuse_counterexample`) -/
def trialPdReuse (val : F → F) (ivs : List (F × F)) (S : F) (prev : Option (List F)) (times : List F) : List F :=
  let zeros := times.map (fun _ => (0 : F))
  let buf := match prev with
    | some b => if b.length = times.length then b else zeros
    | none => zeros
  List.zipWith (fun z t => if Livetime.isOn ivs t = true ∧ 0 < S then val t / S else z) buf times

/-- the densities returned for a sequence of trials on one object -/
def trialsRun (val : F → F) (ivs : List (F × F)) (S : F) : Option (List F) → List (List F) → List (List F)
  | _, [] => []
  | prev, times :: rest =>
    let pd := trialPd val ivs S prev times
    pd :: trialsRun val ivs S (some pd) rest

/-- one pass of the source loop of `SignalTimePDF._calculate_pd` for source `k`: the values whose
`src_idxs` entry is `k` are overwritten where the event is on-time (`pd_src = pd[src_m];
pd_src[on] = profile(times[on]) / S; pd[src_m] = pd_src`), all others are kept -/
def srcPass (val : F → F) (ivs : List (F × F)) (S : F) (k : Nat) (pd : List F) (vals : List (Nat × F)) : List F :=
  List.zipWith (fun cur (v : Nat × F) =>
    if v.1 = k then (if Livetime.isOn ivs v.2 = true ∧ 0 < S then val v.2 / S else cur) else cur) pd vals

/-- `SignalTimePDF._calculate_pd` for `nSrc` sources: `vals` are the (source index, event time)
pairs of `tdm.src_evt_idxs` (`times[evt_idxs]` resolved), `val k` / `S k` the profile and the
normalisation after `set_params` with the parameter row of source `k` -/
def calcPdMulti (val : Nat → F → F) (S : Nat → F) (ivs : List (F × F)) (nSrc : Nat) (vals : List (Nat × F)) : List F :=
  (List.range nSrc).foldl (fun pd k => srcPass (val k) ivs (S k) k pd vals) (vals.map (fun _ => (0 : F)))

/-- `np.take(times, evt_idxs)` paired with `src_idxs` (`none` = IndexError) -/
def resolveVals (times : List F) : List Nat → List Nat → Option (List (Nat × F))
  | s :: ss, e :: es => match times[e]?, resolveVals times ss es with
    | some t, some rest => some ((s, t) :: rest)
    | _, _ => none
  | [], [] => some []
  | _, _ => none

end timepdf

/-! ### the cached normalisation `_S` as a state machine

`TimePDF` keeps `_S` next to the live-time and the profile it was computed from.  `_S` has to be
recomputed whenever one of the two changes: `SignalTimePDF._calculate_pd` does it when
`set_params` reports an update, the `livetime` / `time_flux_profile` setters do it (after the
fix).  A profile is represented by its integral function only through an index into a table of
profiles (`prof : Nat`), which keeps the machine independent of the profile family. -/

structure TState (F : Type) where
  ivs : List (F × F)
  prof : Nat
  S : Option F

inductive TOp (F : Type) where
  | setParams (prof : Nat)            -- get_pd with a parameter row that yields profile `prof`
  | setLivetime (ivs : List (F × F))  -- `pdf.livetime = …`
  | setProfile (prof : Nat)           -- `pdf.time_flux_profile = …`

section machine
variable [Add F] [LE F] [DecidableLE F] [LT F] [DecidableLT F] [OfNat F 0]

/-- what `_calculate_sum_of_ontime_time_flux_profile_integrals` returns for the current members;
`table p = (t_start, t_stop, get_integral)` of profile number `p`. -/
def calcS (table : Nat → F × F × (F → F → F)) (ivs : List (F × F)) (p : Nat) : Option F :=
  let (ts, te, integ) := table p
  (Livetime.betweenIdx ivs ts te).map (fun l => sumSeq (l.map (fun q => integ q.1 q.2)))

def tInit (table : Nat → F × F × (F → F → F)) (ivs : List (F × F)) (p : Nat) : TState F :=
  { ivs := ivs, prof := p, S := calcS table ivs p }

/-- one operation on the fixed code -/
def tStep (table : Nat → F × F × (F → F → F)) (s : TState F) : TOp F → TState F
  | .setParams p => if p = s.prof then s else { s with prof := p, S := calcS table s.ivs p }
  | .setLivetime ivs => { s with ivs := ivs, S := calcS table ivs s.prof }
  | .setProfile p => { s with prof := p, S := calcS table s.ivs p }

/-- one operation on the code before `fix: TimePDF recomputes S in its setters` -/
def tStepOrig (table : Nat → F × F × (F → F → F)) (s : TState F) : TOp F → TState F
  | .setParams p => if p = s.prof then s else { s with prof := p, S := calcS table s.ivs p }
  | .setLivetime ivs => { s with ivs := ivs }
  | .setProfile p => { s with prof := p }

def tRun (table : Nat → F × F × (F → F → F)) (s : TState F) (ops : List (TOp F)) : TState F :=
  ops.foldl (tStep table) s

def tRunOrig (table : Nat → F × F × (F → F → F)) (s : TState F) (ops : List (TOp F)) : TState F :=
  ops.foldl (tStepOrig table) s

end machine

/-! ### the whole cached state of a `SignalTimePDF`: `_S`, its fingerprint, the pre-calculated `_pd`

After `fix: TimePDF keeps S and pre-calculated densities consistent …` the object remembers for which
up-time array *object* (`ivsId`: bumped whenever the array is replaced, by the `livetime` setter or
behind the PDF's back through `pdf.livetime.uptime_mjd_intervals_arr = …`) and for which profile
state `_S` was calculated (`key`), recalculates at evaluation time when they differ, and drops the
pre-calculated `_pd`.  `fixed = false` is the code before that fix (no fingerprint, `_pd` survives). -/

structure TState2 (F : Type) where
  ivs : List (F × F)
  ivsId : Nat
  prof : Nat
  S : Option F
  key : Nat × Nat
  trial : List F
  pd : Option (List F)
  axis : Option (F × F)      -- the 'time' PDFAxis (vmin, vmax)

inductive TOp2 (F : Type) where
  | setLivetime (ivs : List (F × F))      -- `pdf.livetime = …`
  | setProfile (p : Nat)                  -- `pdf.time_flux_profile = …`
  | profileMutated (p : Nat)              -- the (shared) profile object changed from outside
  | livetimeMutated (ivs : List (F × F))  -- `pdf.livetime.uptime_mjd_intervals_arr = …`
  | initTrial (times : List F)            -- `initialize_for_new_trial` (constant PDF: pre-calculates)
  | getPd                                 -- `get_pd(tdm, empty parameter row)`; state effect only
  | checkValid                            -- `assert_is_valid_for_trial_data`; state effect only

section machine2
variable [Add F] [Div F] [LE F] [DecidableLE F] [LT F] [DecidableLT F] [OfNat F 0]

/-- `Livetime.time_window`: first start and last stop -/
def winOf (ivs : List (F × F)) : Option (F × F) :=
  match ivs.head?, ivs.getLast? with
  | some a, some b => some (a.1, b.2)
  | _, _ => none

def upToDate (fixed : Bool) (s : TState2 F) : Bool := !fixed || (s.key == (s.ivsId, s.prof))

/-- `_update_time_axis_and_S` -/
def refresh2 (fixed : Bool) (table : Nat → F × F × (F → F → F)) (s : TState2 F) : TState2 F :=
  { s with S := calcS table s.ivs s.prof, key := (s.ivsId, s.prof), pd := if fixed then none else s.pd,
           axis := winOf s.ivs }

/-- `_ensure_S_is_up_to_date` -/
def ensure2 (fixed : Bool) (table : Nat → F × F × (F → F → F)) (s : TState2 F) : TState2 F :=
  if upToDate fixed s = true then s else refresh2 fixed table s

/-- the densities `_calculate_pd` returns for the current trial in state `s` -/
def pdOf (val : Nat → F → F) (s : TState2 F) : Option (List F) :=
  s.S.map (fun S => s.trial.map (timePd (val s.prof) s.ivs S))

def tInit2 (table : Nat → F × F × (F → F → F)) (ivs : List (F × F)) (p : Nat) : TState2 F :=
  { ivs := ivs, ivsId := 0, prof := p, S := calcS table ivs p, key := (0, p), trial := [], pd := none,
    axis := winOf ivs }

def tStep2 (fixed : Bool) (table : Nat → F × F × (F → F → F)) (val : Nat → F → F) (s : TState2 F) :
    TOp2 F → TState2 F
  | .setLivetime ivs => refresh2 fixed table { s with ivs := ivs, ivsId := s.ivsId + 1 }
  | .setProfile p => refresh2 fixed table { s with prof := p }
  | .profileMutated p => { s with prof := p }
  | .livetimeMutated ivs => { s with ivs := ivs, ivsId := s.ivsId + 1 }
  | .initTrial times =>
      let s1 := ensure2 fixed table { s with trial := times }
      { s1 with pd := pdOf val s1 }
  | .getPd => if s.pd.isSome && upToDate fixed s then s else ensure2 fixed table s
  | .checkValid => ensure2 fixed table s

/-- what `get_pd` returns in state `s` (`none` = the window query raised) -/
def tGet (fixed : Bool) (table : Nat → F × F × (F → F → F)) (val : Nat → F → F) (s : TState2 F) :
    Option (List F) :=
  if s.pd.isSome && upToDate fixed s then s.pd else pdOf val (ensure2 fixed table s)

/-- `TimePDF.assert_is_valid_for_trial_data` for one event time (after `fix: … uses the time range of
the current live-time` the axis is brought up to date first; `fixed = false`: the axis as it is) -/
def tValid (fixed : Bool) (table : Nat → F × F × (F → F → F)) (s : TState2 F) (t : F) : Bool :=
  match (if fixed then ensure2 fixed table s else s).axis with
  | some (lo, hi) => decide (lo ≤ t) && decide (t ≤ hi)
  | none => false

def tRun2 (fixed : Bool) (table : Nat → F × F × (F → F → F)) (val : Nat → F → F) (s : TState2 F)
    (ops : List (TOp2 F)) : TState2 F := ops.foldl (tStep2 fixed table val) s

end machine2

/-! ## Part 2 — histogram PDFs -/

section hist
variable [LE F] [DecidableLE F]

/-- `numpy.histogram*` bin of a value for explicit, non-decreasing `edges`:
`searchsorted(edges, x, 'right')`, values equal to the last edge go to the last bin, values
outside fall into the two outlier bins that are cropped (`none`). -/
def histBin (edges : List F) (x : F) : Option Nat :=
  let c := Livetime.digitize edges x
  let onLast := match edges.getLast? with
    | some l => decide (l ≤ x) && decide (x ≤ l)
    | none => false
  let c' := if onLast then c - 1 else c
  if 1 ≤ c' ∧ c' < edges.length then some (c' - 1) else none

/-- `BinningDefinition.any_data_out_of_range` for one value, negated (after `fix: … rejects NaN`):
`(x >= lower_edge) & (x <= upper_edge)` — false for NaN. -/
def inRange (edges : List F) (x : F) : Bool :=
  match edges.head?, edges.getLast? with
  | some lo, some hi => decide (lo ≤ x) && decide (x ≤ hi)
  | _, _ => false

/-- before the fix: `not ((x < lower_edge) | (x > upper_edge))` — true for NaN -/
def inRangeOrig [LT F] [DecidableLT F] (edges : List F) (x : F) : Bool :=
  match edges.head?, edges.getLast? with
  | some lo, some hi => !(decide (x < lo) || decide (hi < x))
  | _, _ => false

/-- Python indexing `arr[i]` of an axis of length `n` with a possibly negative index:
`none` = IndexError. -/
def pyIndex (n : Nat) (i : Int) : Option Nat :=
  if 0 ≤ i ∧ i < n then some i.toNat
  else if -(n : Int) ≤ i ∧ i < 0 then some (i + n).toNat
  else none

/-- bin lookup of `I3EnergyPDF.get_pd` before the fix: `np.digitize(x, edges) - 1` -/
def lookupOrig (edges : List F) (x : F) : Option Nat :=
  pyIndex (edges.length - 1) ((Livetime.digitize edges x : Int) - 1)

/-- bin lookup of `I3EnergyPDF.get_pd` (after `fix: … upper edge`): `np.digitize(x, edges) - 1`,
values on the upper-most edge belong to the last bin (as in `numpy.histogram2d`). -/
def lookup (edges : List F) (x : F) : Option Nat :=
  let onLast := match edges.getLast? with
    | some l => decide (l ≤ x) && decide (x ≤ l)
    | none => false
  let i : Int := if onLast then (edges.length : Int) - 2 else (Livetime.digitize edges x : Int) - 1
  pyIndex (edges.length - 1) i

end hist

section histnum
variable [Add F] [Sub F] [Mul F] [Div F] [LE F] [DecidableLE F] [OfNat F 0]

/-- `np.diff(edges)` -/
def widths : List F → List F
  | a :: b :: rest => (b - a) :: widths (b :: rest)
  | _ => []

/-- one MC event: log10(E), sin(dec), MC weight, physics weight -/
structure Ev (F : Type) where
  x : F
  y : F
  mcw : F
  pw : F

/-- events with physics contribution (`~mask`, `mask = data_physicsweight == 0.`) -/
def physEvents (evs : List (Ev F)) : List (Ev F) := evs.filter (fun e => !isZero e.pw)

/-- content of bin `(i, j)` of the weighted `np.histogram2d` (sequential accumulation in event
order, as `np.bincount`) -/
def histAt (eE eD : List F) (evs : List (Ev F)) (i j : Nat) : F :=
  sumSeq (((physEvents evs).filter
    (fun e => histBin eE e.x == some i && histBin eD e.y == some j)).map (fun e => e.mcw * e.pw))

/-- the histogram column of declination band `j` (all log-energy bins) -/
def bandHist (eE eD : List F) (evs : List (Ev F)) (j : Nat) : List F :=
  (List.range (eE.length - 1)).map (fun i => histAt eE eD evs i j)

/-- `h /= norms` for one band, `norms = sum(h, axis=0) * diff(logE edges)`; a band without
content keeps density zero (after `fix: … empty declination band`). -/
def normBand (hs ws : List F) : List F :=
  let s := sumSeq hs
  List.zipWith (fun h w => if isZero (s * w) then 0 else h / (s * w)) hs ws

/-- before the fix: plain division (`0/0 = nan` for a band without content) -/
def normBandOrig (hs ws : List F) : List F :=
  let s := sumSeq hs
  List.zipWith (fun h w => h / (s * w)) hs ws

/-- the un-smoothed energy density of band `j` as a list over the log-energy bins -/
def bandPdf (eE eD : List F) (evs : List (Ev F)) (j : Nat) : List F :=
  normBand (bandHist eE eD evs j) (widths eE)

/-- `scipy.signal.convolve(h, k, mode='same')` along one axis:
`out[i] = Σ_m k[m] · h[i + (K-1)/2 - m]` over the indices that exist. -/
def convSame (k h : List F) : List F :=
  let c := (k.length - 1) / 2
  (List.range h.length).map (fun i =>
    sumSeq ((List.range k.length).map (fun m =>
      if m ≤ i + c then
        match k[m]?, h[i + c - m]? with
        | some kv, some hv => kv * hv
        | _, _ => 0
      else 0)))

/-- `NeighboringBinHistSmoothingMethod.smooth` along the log-energy axis:
`convolve(h, k, 'same') / convolve(ones, k, 'same')` -/
def smooth [OfNat F 1] (k h : List F) : List F :=
  List.zipWith (fun a n => a / n) (convSame k h) (convSame k (h.map (fun _ => 1)))

/-- column sum of the row-normalised smoothing matrix: how much of the content of bin `j` the smoothed
histogram holds in total, `Σ_i k[i + c - j] / norm_i` (the smoothed band mass is
`Σ_j p_j · colSum j`; `colSum = 1` away from the borders) -/
def colSum [OfNat F 1] (k : List F) (n j : Nat) : F :=
  let c := (k.length - 1) / 2
  let N := convSame k (List.replicate n (1 : F))
  sumSeq ((List.range n).map (fun i =>
    sumSeq ((List.range k.length).map (fun m =>
      if m ≤ i + c ∧ i + c - m = j then
        match k[m]?, N[i]? with
        | some kv, some nv => kv / nv
        | _, _ => 0
      else 0))))

/-- the final energy density of band `j` (`k = []` : no smoothing) -/
def energyBand [OfNat F 1] (k eE eD : List F) (evs : List (Ev F)) (j : Nat) : List F :=
  let p := bandPdf eE eD evs j
  if k.isEmpty then p else smooth k p

/-- `I3EnergyPDF.get_pd` for one event: `none` = IndexError -/
def energyPd [OfNat F 1] (k eE eD : List F) (evs : List (Ev F)) (x y : F) : Option F :=
  match lookup eE x, lookup eD y with
  | some i, some j => (energyBand k eE eD evs j)[i]?
  | _, _ => none

/-! ### the histogram PDF as an object next to its caller

`I3EnergyPDF` fills its histogram at construction but looks events up (and checks validity) through
its `BinningDefinition`s at evaluation time.  `BinningDefinition` keeps a *copy* of the edge array
it is given (`np.array(arr, dtype=np.float64)`), so what the caller does to its own arrays
afterwards cannot reach the PDF.  `shared = true` is a binning that keeps the caller's array
(not the code; kept for `c10_energy_object_shared_counterexample`). -/

structure EObj (F : Type) where
  eE : List F
  eD : List F
  bands : List (List F)

structure EWorld (F : Type) where
  obj : EObj F
  callerE : List F
  callerD : List F

inductive EOp (F : Type) where
  | callerWrites (eE eD : List F)    -- the caller overwrites its edge arrays in place
  | get (x y : F)                    -- `get_pd` for one event
  | valid (x y : F)                  -- `assert_is_valid_for_trial_data` for one event

inductive EOut (F : Type) where
  | pd (v : Option F)
  | ok (b : Bool)
  | unit
deriving DecidableEq

/-- construction from the caller's arrays -/
def eNew [OfNat F 1] (k eE eD : List F) (evs : List (Ev F)) : EWorld F :=
  { obj := { eE := eE, eD := eD, bands := (List.range (eD.length - 1)).map (energyBand k eE eD evs) },
    callerE := eE, callerD := eD }

def eGet (o : EObj F) (x y : F) : Option F :=
  match lookup o.eE x, lookup o.eD y with
  | some i, some j => match o.bands[j]? with
    | some b => b[i]?
    | none => none
  | _, _ => none

def eStep (shared : Bool) (w : EWorld F) : EOp F → EWorld F × EOut F
  | .callerWrites eE eD =>
    ({ obj := if shared then { w.obj with eE := eE, eD := eD } else w.obj, callerE := eE, callerD := eD }, .unit)
  | .get x y => (w, .pd (eGet w.obj x y))
  | .valid x y => (w, .ok (inRange w.obj.eE x && inRange w.obj.eD y))

def eRun (shared : Bool) : EWorld F → List (EOp F) → List (EOut F)
  | _, [] => []
  | w, op :: rest => let r := eStep shared w op; r.2 :: eRun shared r.1 rest

/-- weighted 1-d histogram (`np.histogram(data, bins=edges, weights=w)`) -/
def hist1 (edges : List F) (evs : List (F × F)) : List F :=
  (List.range (edges.length - 1)).map (fun i =>
    sumSeq ((evs.filter (fun e => histBin edges e.1 == some i)).map (fun e => e.2)))

/-- `BackgroundI3SpatialPDF.__init__`: `h / h.sum() / diff(edges)`; `none` = the `ValueError`
raised for NaN (total weight zero) or non-positive bins. -/
def spatialHist (edges : List F) (evs : List (F × F)) : Option (List F) :=
  let hs := hist1 edges evs
  let tot := sumSeq hs
  if isZero tot then none
  else
    let p := List.zipWith (fun h w => h / tot / w) hs (widths edges)
    if p.any (fun v => decide (v ≤ 0)) then none else some p

/-- `h / h.sum() / diff(edges)` -/
def normHist (hs ws : List F) : List F :=
  let tot := sumSeq hs
  List.zipWith (fun h w => h / tot / w) hs ws

/-- state of a `BackgroundI3SpatialPDF`: `_orig_hist` (raw weighted histogram), the normalised
histogram behind `_orig_log_spline` and the one behind the current `_log_spline` -/
structure SpState (F : Type) where
  origHist : List F
  orig : List F
  cur : List F

inductive SpOp (F : Type) where
  | addEvents (xs : List F)
  | reset

/-- constructor (`none` = ValueError) -/
def spInit (edges : List F) (evs : List (F × F)) : Option (SpState F) :=
  (spatialHist edges evs).map (fun p => { origHist := hist1 edges evs, orig := p, cur := p })

/-- `add_events`: un-weighted histogram of the new events (values outside the binning are dropped
by `np.histogram`), added to `_orig_hist` (not cumulative), normalised by the sum of the *updated*
histogram; `reset`: back to the original spline. -/
def spStep [OfNat F 1] (edges : List F) (s : SpState F) : SpOp F → SpState F
  | .addEvents xs =>
    let h := List.zipWith (· + ·) s.origHist (hist1 edges (xs.map (fun x => (x, (1 : F)))))
    { s with cur := normHist h (widths edges) }
  | .reset => { s with cur := s.orig }

def spRun [OfNat F 1] (edges : List F) (s : SpState F) (ops : List (SpOp F)) : SpState F :=
  ops.foldl (spStep edges) s

/-- `add_events` normalising by `_orig_hist.sum() + len(events)` (not the code; kept for
`c10_spatial_add_events_wrong_norm_counterexample`) -/
def spStepLenNorm [OfNat F 1] (edges : List F) (s : SpState F) (xs : List F) : SpState F :=
  let h := List.zipWith (· + ·) s.origHist (hist1 edges (xs.map (fun x => (x, (1 : F)))))
  let tot := sumSeq s.origHist + sumSeq (xs.map (fun _ => (1 : F)))
  { s with cur := List.zipWith (fun v w => v / tot / w) h (widths edges) }

end histnum

/-! ## Part 4 — evaluation caches and products (state carried between evaluations)

`MultiDimGridPDF` keeps the densities of the current trial (`_cache_pd`, keyed by the trial data
state id) when `cache_pd_values` is set; `PDFProduct` multiplies the arrays its factors hand out —
for several PDF classes these are the factors' *internal* pre-calculated arrays, so the product
must not write into them. -/

structure GState (F : Type) where
  key : Option Nat            -- `_cache_tdm_trial_data_state_id`
  cache : Option (List F)     -- `_cache_pd`

section grid
variable [Mul F]

/-- `MultiDimGridPDF.get_pd` for the trial with state id `id` (all values requested): `raw id` are the
interpolated grid values, `norm id` the values of `norm_factor_func`; as coded the *normalised*
values are stored. -/
def gEval (cacheOn : Bool) (raw norm : Nat → List F) (s : GState F) (id : Nat) : GState F × List F :=
  let hit : Option (List F) := if cacheOn then (if s.key = some id then s.cache else none) else none
  match hit with
  | some pd => (s, pd)
  | none =>
    let pd := List.zipWith (· * ·) (raw id) (norm id)
    (if cacheOn then { key := some id, cache := some pd } else s, pd)

/-- a variant that stores the values before the normalisation (not the code; kept for
`c10_grid_cache_store_raw_counterexample`) -/
def gEvalStoreRaw (cacheOn : Bool) (raw norm : Nat → List F) (s : GState F) (id : Nat) : GState F × List F :=
  let hit : Option (List F) := if cacheOn then (if s.key = some id then s.cache else none) else none
  match hit with
  | some pd => (s, pd)
  | none =>
    let pd := List.zipWith (· * ·) (raw id) (norm id)
    (if cacheOn then { key := some id, cache := some (raw id) } else s, pd)

/-- the densities returned for a sequence of evaluations (trial ids) on one object -/
def gRun (step : GState F → Nat → GState F × List F) : GState F → List Nat → List (List F)
  | _, [] => []
  | s, id :: rest => let r := step s id; r.2 :: gRun step r.1 rest

/-! ### the interpolated grid values (`RegularGridInterpolator(method='linear', bounds_error=False, fill_value=0)`) -/

section interp
variable [Add F] [Sub F] [Mul F] [Div F] [LE F] [DecidableLE F] [OfNat F 0] [OfNat F 1]

/-- linear interpolation of the (optional) values `vs` given at the knots `xs`: the first cell
`[a, b]` containing `x` (a knot belongs to the cell on its left, as `searchsorted(...) - 1`),
`(1 - d)·va + d·vb` with the normalised distance `d = (x - a)/(b - a)`; `none` outside the knots -/
def interpO : List F → List (Option F) → F → Option F
  | a :: b :: xs, va :: vb :: vs, x =>
    if a ≤ x ∧ x ≤ b then
      match va, vb with
      | some p, some q => let d := (x - a) / (b - a); some ((1 - d) * p + d * q)
      | _, _ => none
    else interpO (b :: xs) (vb :: vs) x
  | _, _, _ => none

/-- bilinear interpolation on the grid `(ey, ex)`: interpolate every row along `x`, then the row
results along `y`; outside the grid the fill value 0 -/
def interp2 (ey ex : List F) (grid : List (List F)) (y x : F) : F :=
  match interpO ey (grid.map (fun row => interpO ex (row.map some) x)) y with
  | some v => v
  | none => 0

end interp

/-! ### the pd cache with event subsets (`get_pd_with_eventdata(evt_mask=…)`)

The cache array is created filled with NaN (`none`); a masked evaluation fills the requested
subset only.  `fixed = false` is the code before `fix: … never returns the NaN placeholders`:
an un-masked request returned the whole cache array, placeholders included. -/

/-- `arr[mask]` -/
def pick {α : Type} : List Bool → List α → List α
  | true :: m, x :: xs => x :: pick m xs
  | false :: m, _ :: xs => pick m xs
  | _, _ => []

/-- `cache[mask] = vals` -/
def scatter {α : Type} : List Bool → List α → List (Option α) → List (Option α)
  | true :: m, v :: vs, _ :: cs => some v :: scatter m vs cs
  | false :: m, vs, c :: cs => c :: scatter m vs cs
  | _, _, cs => cs

/-- `None` if any requested value is still NaN -/
def allSome {α : Type} : List (Option α) → Option (List α)
  | [] => some []
  | none :: _ => none
  | some x :: rest => (allSome rest).map (x :: ·)

structure GMState (F : Type) where
  key : Option Nat
  cache : Option (List (Option F))

/-- `MultiDimGridPDF.get_pd_with_eventdata` for trial `id` and event mask `mask` (`none`: all values,
i.e. `get_pd`); returns the new state and the densities (`none` = NaN) -/
def gmEval (fixed cacheOn : Bool) (raw norm : Nat → List F) (s : GMState F) (id : Nat)
    (mask : Option (List Bool)) : GMState F × List (Option F) :=
  let m := mask.getD (List.replicate (raw id).length true)
  let cached : Option (List (Option F)) := if s.key = some id then s.cache else none
  let hit : Option (List (Option F)) :=
    if cacheOn then
      match cached with
      | none => none
      | some c =>
        if !fixed && mask.isNone then some c
        else (allSome (pick m c)).map (fun l => l.map some)
    else none
  match hit with
  | some pd => (s, pd)
  | none =>
    let pd := List.zipWith (· * ·) (pick m (raw id)) (pick m (norm id))
    let s2 : GMState F :=
      if cacheOn then
        let c0 := match cached with
          | some c => c
          | none => List.replicate m.length none
        { key := some id, cache := some (scatter m pd c0) }
      else s
    (s2, pd.map some)

def gmRun (fixed cacheOn : Bool) (raw norm : Nat → List F) :
    GMState F → List (Nat × Option (List Bool)) → List (List (Option F))
  | _, [] => []
  | s, (id, mask) :: rest =>
    let r := gmEval fixed cacheOn raw norm s id mask
    r.2 :: gmRun fixed cacheOn raw norm r.1 rest

/-- two factor PDFs with their internal per-trial arrays -/
structure PState (F : Type) where
  b1 : List F
  b2 : List F

inductive POp where
  | evalProduct
  | readLeft
  | readRight

/-- `PDFProduct.get_pd` as coded (`pd = pd1 * pd2`, a new array) and the reads of the factors -/
def pStep (s : PState F) : POp → PState F × List F
  | .evalProduct => (s, List.zipWith (· * ·) s.b1 s.b2)
  | .readLeft => (s, s.b1)
  | .readRight => (s, s.b2)

/-- in-place multiplication into the left factor's array (not the code; kept for
`c10_product_inplace_counterexample`) -/
def pStepInPlace (s : PState F) : POp → PState F × List F
  | .evalProduct => let p := List.zipWith (· * ·) s.b1 s.b2; ({ s with b1 := p }, p)
  | .readLeft => (s, s.b1)
  | .readRight => (s, s.b2)

def pRun (step : PState F → POp → PState F × List F) : PState F → List POp → List (List F)
  | _, [] => []
  | s, op :: rest => let r := step s op; r.2 :: pRun step r.1 rest

end grid

/-! ## Part 3 — point-spread densities and the 1/2π factor -/

section psf
variable [Mul F] [Div F] [Neg F] [OfScientific F] [Transc F]

/-- `BackgroundI3SpatialPDF`: `0.5 / np.pi * np.exp(log_spline_val)` -/
def spatialPd (logSplineVal : F) : F := 0.5 / Transc.pi * Transc.exp logSplineVal

/-- `GaussianPSFPointLikeSourceSignalSpatialPDF.calculate_pd`:
`0.5/(np.pi*sigma_sq) * np.exp(-0.5*(psi**2/sigma_sq))` -/
def psfPd (σ ψ : F) : F :=
  let sigmaSq := σ * σ
  0.5 / (Transc.pi * sigmaSq) * Transc.exp (-0.5 * (ψ * ψ / sigmaSq))

/-- `RayleighPSFPointSourceSignalSpatialPDF` before the fix (NaN at `psi = 0`):
`0.5/(np.pi*np.sin(psi)) * (psi / sigma_sq) * np.exp(-0.5*(psi**2/sigma_sq))` -/
def rayleighPdOrig (σ ψ : F) : F :=
  let sigmaSq := σ * σ
  0.5 / (Transc.pi * Transc.sin ψ) * (ψ / sigmaSq) * Transc.exp (-0.5 * (ψ * ψ / sigmaSq))

/-- after `fix: … finite for an event at the source position`:
`0.5/(np.pi*sigma_sq) * psi_over_sin_psi * np.exp(-0.5*(psi**2/sigma_sq))`, `psi/sin(psi) := 1` at `psi = 0` -/
def rayleighPd [LE F] [DecidableLE F] [OfNat F 0] [OfNat F 1] (σ ψ : F) : F :=
  let sigmaSq := σ * σ
  let r : F := if isZero ψ = true then 1 else ψ / Transc.sin ψ
  0.5 / (Transc.pi * sigmaSq) * r * Transc.exp (-0.5 * (ψ * ψ / sigmaSq))

end psf

end Pdf
