/-
  Model of the IceCube specific data set (skyllh/i3/dataset.py) — property C17:
  `I3Dataset.load_grl`, `I3Dataset.load_data`, `I3Dataset.prepare_data` (live time from the
  good-run list, `sin_dec` / `sin_true_dec`, selection of the experimental events by the runs and by
  the on-time windows of the good-run list) composed with `Dataset.load_and_prepare_data`
  (Model/Load.lean).  Scalar operations on cells (`<=`, `==`, `sin`, `sum`, `-`) are parameters.
-/
import SkyllhModel.Model.Load

namespace Load

/-- the field names `prepare_data` / `load_grl` refer to -/
structure I3Names (N : Type) where
  run : N
  time : N
  start : N
  stop : N
  livetime : N
  dec : N
  sinDec : N
  trueDec : N
  sinTrueDec : N

/-- the scalar operations used on cells -/
structure I3Ops (D V : Type) where
  le : V → V → Bool        -- `<=` between time stamps
  eqv : V → V → Bool       -- equality of run numbers (`np.isin`)
  sin : V → V              -- `np.sin`
  sinDt : D → D            -- dtype of `np.sin(column)`
  sum : List V → V         -- `np.sum`
  sub : V → V → V          -- `stop - start`

section i3
variable {N D V P : Type} [DecidableEq N] [DecidableEq D]

def cellsOf (a : Arr N D V) (n : N) : Option (List V) := (findCol a.cols n).map (·.cells)

/-- the rows of a column with a true mask entry, in order (`column[mask]`) -/
def maskCells (mask : List Bool) (cells : List V) : List V :=
  ((cells.zip mask).filter (fun p => p.2)).map (·.1)

/-- `arr[mask]` (`get_selection` + constructor from the dictionary of the selected fields) -/
def selectRows (mask : List Bool) (a : Arr N D V) : Arr N D V :=
  ⟨a.cols.map (fun c => { c with cells := maskCells mask c.cells }),
   arrLen (a.cols.map (fun c => { c with cells := maskCells mask c.cells }))⟩

/-- `if np.any(~mask): data.exp = data.exp[mask]` -/
def applyMask (mask : List Bool) (a : Arr N D V) : Arr N D V :=
  if mask.all id then a else selectRows mask a

variable (ops : I3Ops D V) (nm : I3Names N)

/-- `np.isin(data.exp['run'], np.unique(data.grl['run']))` -/
def runMask (expRun grlRun : List V) : List Bool :=
  expRun.map (fun r => grlRun.any (fun g => ops.eqv r g))

/-- the loop `for (start, stop) in zip(grl['start'], grl['stop']):
mask |= (time >= start) & (time <= stop)` -/
def timeMaskGo (times : List V) : List (V × V) → List Bool → List Bool
  | [], mask => mask
  | (s, e) :: rest, mask =>
    timeMaskGo times rest (List.zipWith (fun m t => m || (ops.le s t && ops.le t e)) mask times)

def timeMask (times : List V) (ivs : List (V × V)) : List Bool :=
  timeMaskGo ops times ivs (times.map fun _ => false)

/-- selection of the experimental events by the good-run list (run numbers, then on-time windows) -/
def i3Select (exp grl : Arr N D V) : Arr N D V :=
  let exp1 := match cellsOf grl nm.run, cellsOf exp nm.run with
    | some gr, some er => applyMask (runMask ops er gr) exp
    | _, _ => exp
  match cellsOf grl nm.start, cellsOf grl nm.stop, cellsOf exp1 nm.time with
  | some s, some e, some t => applyMask (timeMask ops t (s.zip e)) exp1
  | _, _, _ => exp1

/-- "Set the livetime of the dataset from the GRL data when no livetime was specified" -/
def i3Livetime (livetime : Option V) (grl : Option (Arr N D V)) : Except Err (Option V) :=
  match livetime, grl with
  | none, some g =>
    match cellsOf g nm.livetime with
    | some lt => .ok (some (ops.sum lt))
    | none =>
      match cellsOf g nm.start with
      | none => .error .keyError
      | some s =>
        match cellsOf g nm.stop with
        | none => .error .keyError
        | some e => .ok (some (ops.sum (List.zipWith (fun a b => ops.sub b a) s e)))
  | lt, _ => .ok lt

/-- `if dst not in field_name_list: append_field(dst, np.sin(data[src]))` -/
def addSin (src dst : N) (a : Arr N D V) : Except Err (Arr N D V) :=
  if dst ∈ a.cols.map (·.name) then .ok a
  else
    match findCol a.cols src with
    | none => .error .keyError
    | some c => .ok { a with cols := a.cols ++ [⟨dst, ops.sinDt c.dt, c.cells.map ops.sin⟩] }

/-- `I3Dataset.prepare_data` -/
def i3Prepare
    (prep : Option (Arr N D V) × Option (Arr N D V) → Except Err (Option (Arr N D V) × Option (Arr N D V)))
    (d : Option (Arr N D V) × Option (Arr N D V)) (grl : Option (Arr N D V)) (livetime : Option V) :
    Except Err ((Option (Arr N D V) × Option (Arr N D V)) × Option V) :=
  match i3Livetime ops nm livetime grl with
  | .error e => .error e
  | .ok lt =>
    match prep d with
    | .error e => .error e
    | .ok (e, m) =>
      let e1 : Except Err (Option (Arr N D V)) := match e with
        | none => .ok none
        | some a => match addSin ops nm.dec nm.sinDec a with
          | .error err => .error err
          | .ok a' => .ok (some a')
      match e1 with
      | .error err => .error err
      | .ok e2 =>
        let m1 : Except Err (Option (Arr N D V)) := match m with
          | none => .ok none
          | some a => match addSin ops nm.dec nm.sinDec a with
            | .error err => .error err
            | .ok a' => match addSin ops nm.trueDec nm.sinTrueDec a' with
              | .error err => .error err
              | .ok a'' => .ok (some a'')
        match m1 with
        | .error err => .error err
        | .ok m2 =>
          let e3 := match grl, e2 with
            | some g, some a => some (i3Select ops nm a g)
            | _, _ => e2
          .ok ((e3, m2), lt)

/-- insertion into a table sorted by one column (rows as lists of cells) -/
def insertRow (key : Nat) (r : List V) : List (List V) → List (List V)
  | [] => [r]
  | x :: xs =>
    match r[key]?, x[key]? with
    | some a, some b => if ops.le a b then r :: x :: xs else x :: insertRow key r xs
    | _, _ => r :: x :: xs

/-- `sort_by_field(name)`: all fields re-ordered by the values of one field (distinct values) -/
def sortByField (name : N) (a : Arr N D V) : Except Err (Arr N D V) :=
  match a.cols.findIdx? (fun c => decide (c.name = name)) with
  | none => .error .keyError
  | some k =>
    let n := a.len
    let rows := (List.range n).map (fun i => a.cols.filterMap (fun c => c.cells[i]?))
    let sorted := rows.foldl (fun acc r => insertRow ops k r acc) []
    .ok { a with cols := a.cols.zipIdx.map (fun ci =>
      { ci.1 with cells := sorted.filterMap (fun r => r[ci.2]?) }) }

/-- `I3Dataset.load_grl` -/
def loadGrl (loader : List P → Opts N D → Except Err (Arr N D V)) (paths : List P)
    (ren : List (N × N)) : Except Err (Arr N D V) :=
  match loader paths ⟨none, [], []⟩ with
  | .error e => .error e
  | .ok g =>
    match renameFields ren g with
    | .error e => .error e
    | .ok g' => sortByField ops nm.start g'

/-- `Dataset.load_and_prepare_data` on an `I3Dataset`: `I3Dataset.load_data` (events, then the
good-run list), `I3Dataset.prepare_data`, tidy-up, `assert_data_format`.
Result: experimental data, MC data, good-run list, live time. -/
def i3LoadAndPrepare (st : Stages) (loader : List P → Opts N D → Except Err (Arr N D V))
    (prep : Option (Arr N D V) × Option (Arr N D V) → Except Err (Option (Arr N D V) × Option (Arr N D V)))
    (c : DsCfg N D) (expPaths mcPaths grlPaths : List P) (grlRen : List (N × N)) (livetime : Option V) :
    Except Err (Option (Arr N D V) × Option (Arr N D V) × Option (Arr N D V) × Option V) :=
  match loadData st loader c expPaths mcPaths with
  | .error e => .error e
  | .ok d =>
    let grlE : Except Err (Option (Arr N D V)) :=
      if grlPaths.isEmpty then .ok none
      else match loadGrl ops nm loader grlPaths grlRen with
        | .error e => .error e
        | .ok g => .ok (some g)
    match grlE with
    | .error e => .error e
    | .ok grl =>
      match i3Prepare ops nm prep d grl livetime with
      | .error e => .error e
      | .ok ((e, m), lt) =>
        let e' := tidyOpt (jointNames c.merged st.anExp ++ c.keep) e
        let m' := tidyOpt (jointNames c.merged (st.anExp ||| st.anMc) ++ c.keep) m
        match assertFormat st c.merged e' m' lt.isSome with
        | .error err => .error err
        | .ok () => .ok (e', m', grl, lt)

end i3

/-! concrete instance: time-like fields are float64 bit patterns, run numbers integers -/

def leF8 (a b : Int) : Bool := decide (f8OfBits a ≤ f8OfBits b)

def i3OpsCell : I3Ops DT Int where
  le := leF8
  eqv := fun a b => a == b
  sin := fun v => bitsOfF8 (Float.sin (f8OfBits v))
  sinDt := fun d => match d with
    | .f4 => .f4
    | _ => .f8
  sum := fun l => bitsOfF8 (l.foldl (fun acc v => acc + f8OfBits v) 0)
  sub := fun a b => bitsOfF8 (f8OfBits a - f8OfBits b)

def i3NamesStr : I3Names String :=
  ⟨"run", "time", "start", "stop", "livetime", "dec", "sin_dec", "true_dec", "sin_true_dec"⟩

end Load
