/-
  Model of the random-number handling of skyllh — property C08.

  * `RandomChoice` (skyllh/core/random.py): `cdf = cumsum(p); cdf /= cdf[-1]`, uniforms are
    argsorted, searched with `np.searchsorted(side=…)`, the result is scattered back
    (`idxs[idxs_of_sort] = sorted_idxs`) and used as index into `items`.
    `chooseCoded` mirrors that code, `chooseSpec` is the plain "one search per uniform" form.
  * the unused-seed search of `extend_trial_data_file` (skyllh/core/utils/analysis.py):
    `nextSeedOld` = the pinned code (`enumerate(sorted(unique(seeds)) + [None], 1)`),
    `nextSeed` = the repaired code (`next(i for i in itertools.count(start) if i not in used)`).
  * random streams: a `RandomStateService` is a pair (seed, position); `numpy.random.RandomState`
    is a *parameter* `gen seed pos` (the 32-bit word at position `pos` of the stream of `seed`);
    `doTrial`, `trialsSeq`, `parTrials` mirror `Analysis.do_trial`, `do_trials` with
    `parallelize` (worker seeds drawn from the parent stream, `np.array_split` chunking);
    `World`/`Op`/`run` put several named services and a history of operations around it.

  Core Lean only.  Numeric parts are written against the standard notation classes so the same
  definitions run on `Float` in the driver and are reasoned about over ordered fields in
  `Props/C08.lean`.
-/

namespace Rng

/-! ### RandomChoice -/

section choice
variable {F : Type}

/-- sequential prefix sums continuing from the accumulator `acc` -/
def cumFrom [Add F] (acc : F) : List F → List F
  | [] => []
  | p :: ps => (acc + p) :: cumFrom (acc + p) ps

/-- `np.cumsum(p, dtype=np.float64)` (sequential; the first entry is `p[0]` itself) -/
def cumsum [Add F] : List F → List F
  | [] => []
  | p :: ps => p :: cumFrom p ps

/-- `cdf = np.cumsum(p); cdf /= cdf[-1]`.  `none` = `IndexError` for an empty array. -/
def cdf [Add F] [Div F] (ps : List F) : Option (List F) :=
  match (cumsum ps).getLast? with
  | none => none
  | some t => some ((cumsum ps).map (fun c => c / t))

/-- `np.searchsorted(cdf, u, side=…)` for a non-decreasing `cdf`:
`side='right'` = number of entries `≤ u`, `side='left'` = number of entries `< u`. -/
def search [LE F] [LT F] [DecidableLE F] [DecidableLT F] (right : Bool) (c : List F) (u : F) : Nat :=
  if right then c.countP (fun x => decide (x ≤ u)) else c.countP (fun x => decide (x < u))

/-- `[o₀, o₁, …]` ↦ `[a₀, a₁, …]` when every entry is present (`none` = a Python exception) -/
def allSome {α : Type} : List (Option α) → Option (List α)
  | [] => some []
  | none :: _ => none
  | some a :: rest => (allSome rest).map (fun r => a :: r)

/-- `arr[is] = vs` (fancy-index assignment, later writes win) on an array of optional cells -/
def scatter {α : Type} : List (Option α) → List Nat → List α → List (Option α)
  | arr, i :: is, v :: vs => scatter (arr.set i (some v)) is vs
  | arr, _, _ => arr

/-- a concrete `np.argsort` (stable merge sort; numpy's quicksort may order ties differently —
`Props/C08` shows the result of `chooseCoded` is the same for *every* sorting permutation) -/
def argsort [LE F] [DecidableLE F] (us : List F) : List Nat :=
  (us.zipIdx.mergeSort (fun a b => decide (a.1 ≤ b.1))).map (fun a => a.2)

variable [Add F] [Div F] [LE F] [LT F] [DecidableLE F] [DecidableLT F]

/-- the index computation of `RandomChoice.__call__` as coded: `us` are the uniform deviates,
`perm` is `np.argsort(us)`.  `none` stands for an exception (IndexError). -/
def idxsCoded (right : Bool) (ps us : List F) (perm : List Nat) : Option (List Nat) :=
  match cdf ps with
  | none => none
  | some c =>
    -- uniform_values[idxs_of_sort]
    match allSome (perm.map (fun i => us[i]?)) with
    | none => none
    | some sortedUs =>
      let sortedIdxs := sortedUs.map (search right c)
      -- idxs = np.empty_like(sorted_idxs); idxs[idxs_of_sort] = sorted_idxs
      allSome (scatter (List.replicate sortedIdxs.length none) perm sortedIdxs)

/-- `RandomChoice.__call__` as coded -/
def chooseCoded {α : Type} (right : Bool) (items : List α) (ps us : List F) (perm : List Nat) :
    Option (List α) :=
  match idxsCoded right ps us perm with
  | none => none
  | some idxs => allSome (idxs.map (fun i => items[i]?))   -- items[idxs]

/-- specification form: one independent inverse-CDF look-up per uniform deviate -/
def idxsSpec (right : Bool) (ps us : List F) : Option (List Nat) :=
  match cdf ps with
  | none => none
  | some c => some (us.map (search right c))

def chooseSpec {α : Type} (right : Bool) (items : List α) (ps us : List F) : Option (List α) :=
  match idxsSpec right ps us with
  | none => none
  | some idxs => allSome (idxs.map (fun i => items[i]?))

end choice

/-! ### unused-seed search of `extend_trial_data_file` -/

/-- the generator expression of the pinned code on `sorted(np.unique(seeds)) + [None]`:
first `i` (counting from the given start) with `i != e`. -/
def firstMismatch : Nat → List Nat → Nat
  | i, [] => i                     -- `e = None`
  | i, e :: rest => if i ≠ e then i else firstMismatch (i + 1) rest

/-- pinned code: `enumerate(…, 1)` -/
def nextSeedOld (sortedUnique : List Nat) : Nat := firstMismatch 1 sortedUnique

/-- `next(i for i in itertools.count(i₀) if i not in used)` with explicit fuel -/
def firstUnused (used : List Nat) : Nat → Nat → Nat
  | 0, i => i
  | fuel + 1, i => if i ∈ used then firstUnused used fuel (i + 1) else i

/-- repaired code; `start` is the literal argument of `itertools.count` (read from the source) -/
def nextSeed (start : Nat) (used : List Nat) : Nat := firstUnused used (used.length + 1) start

/-- the seed the extension runs with: `rss.seed` if it does not occur in the file yet -/
def extendSeed (start : Nat) (used : List Nat) (cur : Nat) : Nat :=
  if cur ∈ used then nextSeed start used else cur

def extendSeedOld (sortedUnique : List Nat) (cur : Nat) : Nat :=
  if cur ∈ sortedUnique then nextSeedOld sortedUnique else cur

/-- a history of extensions `(requested rss seed, number of new rows ≥ 1)`: returns the seeds the
extensions ran with (oldest first); the file grows by the new rows, all labelled with that seed. -/
def extendMany (start : Nat) : List Nat → List (Nat × Nat) → List Nat
  | _, [] => []
  | file, (cur, rows) :: rest =>
    let s := extendSeed start file cur
    s :: extendMany start (file ++ List.replicate rows s) rest

/-! ### random streams -/

/-- a `RandomStateService`: the seed it was (re)seeded with and the number of 32-bit words
consumed since -/
structure Stream where
  seed : Nat
  pos : Nat
deriving DecidableEq, Repr

namespace Stream
def fresh (seed : Nat) : Stream := ⟨seed, 0⟩
def adv (s : Stream) (k : Nat) : Stream := ⟨s.seed, s.pos + k⟩
/-- what a consumer sees: the words from the current position on -/
def view {V : Type} (gen : Nat → Nat → V) (s : Stream) : Nat → V := fun i => gen s.seed (s.pos + i)
end Stream

/-- configuration of a trial: pseudo-data generation and minimisation as functions of the stream
they read; each returns its output and the number of words it consumed. -/
structure TrialCfg (V D R : Type) where
  dataGen : (Nat → V) → D × Nat
  minim : D → (Nat → V) → R × Nat

structure TrialOut (D R : Type) where
  seed : Nat
  data : D
  fit : R

section streams
variable {V D R : Type}

/-- `Analysis.do_trial(rss, minimizer_rss)`: returns the result row, the data stream and the
minimiser stream afterwards. -/
def doTrial (gen : Nat → Nat → V) (cfg : TrialCfg V D R) (rss : Stream) (mrss : Option Stream) :
    TrialOut D R × Stream × Option Stream :=
  -- if minimizer_rss is None: minimizer_rss = RandomStateService(seed=rss.seed)
  let m := match mrss with
    | none => Stream.fresh rss.seed
    | some m => m
  let g := cfg.dataGen (rss.view gen)
  let f := cfg.minim g.1 (m.view gen)
  (⟨rss.seed, g.1, f.1⟩, rss.adv g.2, mrss.map (fun m => m.adv f.2))

/-- mutant used for non-vacuity only: the minimiser draws from the data stream -/
def doTrialShared (gen : Nat → Nat → V) (cfg : TrialCfg V D R) (rss : Stream) :
    TrialOut D R × Stream :=
  let g := cfg.dataGen (rss.view gen)
  let f := cfg.minim g.1 ((rss.adv g.2).view gen)
  (⟨rss.seed, g.1, f.1⟩, (rss.adv g.2).adv f.2)

/-- `n` trials one after the other on the same services (`parallelize` with `ncpu == 1`, and each
worker's loop) -/
def trialsSeq (gen : Nat → Nat → V) (cfg : TrialCfg V D R) :
    Nat → Stream → Option Stream → List (TrialOut D R) × Stream × Option Stream
  | 0, rss, m => ([], rss, m)
  | n + 1, rss, m =>
    let r := doTrial gen cfg rss m
    let rest := trialsSeq gen cfg n r.2.1 r.2.2
    (r.1 :: rest.1, rest.2.1, rest.2.2)

/-- chunk lengths of `np.array_split(args_list, ncpu)` -/
def chunkSizes (n ncpu : Nat) : List Nat :=
  (List.range ncpu).map (fun i => n / ncpu + (if i < n % ncpu then 1 else 0))

/-- `RandomStateService(seed=rss.random.randint(0, 2**32)) for i in range(1, ncpu)` -/
def workerSeeds (gen : Nat → Nat → V) (toSeed : V → Nat) (rss : Stream) (ncpu : Nat) : List Nat :=
  (List.range (ncpu - 1)).map (fun i => toSeed (gen rss.seed (rss.pos + i)))

structure ParOut (D R : Type) where
  outs : List (TrialOut D R)
  workerSeeds : List Nat
  rss : Stream
  mrss : Option Stream

/-- `Analysis.do_trials(rss, n, ncpu)` through `parallelize`: results in task order -/
def parTrials (gen : Nat → Nat → V) (toSeed : V → Nat) (cfg : TrialCfg V D R)
    (n ncpu : Nat) (rss : Stream) (m : Option Stream) : ParOut D R :=
  if ncpu ≤ 1 then
    let r := trialsSeq gen cfg n rss m
    ⟨r.1, [], r.2.1, r.2.2⟩
  else
    let seeds := workerSeeds gen toSeed rss ncpu
    let sizes := chunkSizes n ncpu
    -- the master process (pid 0) keeps the parent service, advanced by the seed draws
    let r0 := trialsSeq gen cfg (sizes.headD 0) (rss.adv (ncpu - 1)) m
    -- each worker gets a fresh service and its own (forked) copy of the minimiser service
    let rest := (seeds.zip sizes.tail).map (fun sk => (trialsSeq gen cfg sk.2 (Stream.fresh sk.1) m).1)
    ⟨r0.1 ++ rest.flatten, seeds, r0.2.1, r0.2.2⟩

/-- named services -/
abbrev World := Nat → Stream

def World.set (w : World) (a : Nat) (s : Stream) : World := fun b => if b = a then s else w b

inductive Op where
  /-- any consumer drawing `k` words from service `svc` -/
  | draw (svc k : Nat)
  /-- `RandomStateService.reseed(seed)` (also: a new `RandomStateService(seed)` bound to the name) -/
  | reseed (svc seed : Nat)
  /-- `ana.do_trials(rss=svc, n, ncpu, minimizer_rss=msvc)` -/
  | trials (svc : Nat) (msvc : Option Nat) (n ncpu : Nat)

def Op.touches (a : Nat) : Op → Bool
  | .draw s _ => s == a
  | .reseed s _ => s == a
  | .trials s m _ _ => s == a || m == some a

def step (gen : Nat → Nat → V) (toSeed : V → Nat) (cfg : TrialCfg V D R) (w : World) :
    Op → World × List (TrialOut D R)
  | .draw s k => (w.set s ((w s).adv k), [])
  | .reseed s seed => (w.set s (Stream.fresh seed), [])
  | .trials s ms n ncpu =>
    let r := parTrials gen toSeed cfg n ncpu (w s) (ms.map w)
    let w1 := w.set s r.rss
    let w2 := match ms, r.mrss with
      | some m, some st => w1.set m st
      | _, _ => w1
    (w2, r.outs)

/-- run a history; the outputs of all trial operations are concatenated -/
def run (gen : Nat → Nat → V) (toSeed : V → Nat) (cfg : TrialCfg V D R) :
    World → List Op → World × List (TrialOut D R)
  | w, [] => (w, [])
  | w, op :: rest =>
    let r := step gen toSeed cfg w op
    let r' := run gen toSeed cfg r.1 rest
    (r'.1, r.2 ++ r'.2)

end streams

/-! ### the time-generation service (`Livetime.draw_ontimes`, `TimeGenerator.generate_times`)

The only state of a `Livetime` object is its up-time interval array (changed by the
`uptime_mjd_intervals_arr` setter); `LivetimeTimeGenerationMethod` and `TimeGenerator` hold a
reference to it and nothing else.  A draw reads `size` uniform deviates (two words each) from the
service it is given.  The code keeps no cache, so the model has none either: the state machine
below exists to say that a draw is a function of (current intervals, window, size, stream). -/

structure TimeCfg (V I W T : Type) where
  /-- the times computed from the intervals, the optional window `(t_min, t_max)`, `size` and the
  deviates read from the stream view -/
  draw : I → Option W → Nat → (Nat → V) → T

inductive TOp (I W : Type) where
  /-- `draw_ontimes(rss=svc, size, t_min, t_max)` / `generate_times(rss=svc, size, …)` -/
  | draw (svc : Nat) (win : Option W) (size : Nat)
  /-- `livetime.uptime_mjd_intervals_arr = ivs` -/
  | setIvs (ivs : I)
  /-- any other consumer of `k` words of service `svc` -/
  | other (svc k : Nat)
  | reseed (svc seed : Nat)

def TOp.setsIvs {I W : Type} : TOp I W → Bool
  | .setIvs _ => true
  | _ => false

def TOp.touches {I W : Type} (a : Nat) : TOp I W → Bool
  | .draw s _ _ => s == a
  | .setIvs _ => false
  | .other s _ => s == a
  | .reseed s _ => s == a

structure TState (I : Type) where
  ivs : I
  world : World

section times
variable {V I W T : Type}

def tstep (gen : Nat → Nat → V) (tc : TimeCfg V I W T) (st : TState I) : TOp I W → TState I × Option T
  | .draw s win size =>
    (⟨st.ivs, st.world.set s ((st.world s).adv (2 * size))⟩,
      some (tc.draw st.ivs win size ((st.world s).view gen)))
  | .setIvs ivs => (⟨ivs, st.world⟩, none)
  | .other s k => (⟨st.ivs, st.world.set s ((st.world s).adv k)⟩, none)
  | .reseed s seed => (⟨st.ivs, st.world.set s (Stream.fresh seed)⟩, none)

def trun (gen : Nat → Nat → V) (tc : TimeCfg V I W T) : TState I → List (TOp I W) → TState I × List (Option T)
  | st, [] => (st, [])
  | st, op :: rest =>
    let r := tstep gen tc st op
    let r' := trun gen tc r.1 rest
    (r'.1, r.2 :: r'.2)

end times

end Rng
