/-
  Model of the random-number handling of skyllh — property C08.

  * `RandomChoice` (skyllh/core/random.py): `cdf = cumsum(p); cdf /= cdf[-1]`, uniforms are
    argsorted, searched with `np.searchsorted(side=…)`, the result is scattered back
    (`idxs[idxs_of_sort] = sorted_idxs`) and used as index into `items`.
    `chooseCoded` mirrors that code, `chooseSpec` is the plain "one search per uniform" form.
  * the unused-seed search of `extend_trial_data_file` (skyllh/core/utils/analysis.py):
    `nextSeedOld` = the pinned code (`enumerate(sorted(unique(seeds)) + [None], 1)`),
    `nextSeed` = the repaired code (`next(i for i in itertools.count(start) if i not in used)`).
  * random streams: a `RandomStateService` is a pair (seed, position); `numpy.random.RandomState`
    is a *parameter* `gen seed pos` (the 32-bit word at position `pos` of the stream of `seed`);
    `doTrial`, `trialsSeq`, `parTrials` mirror `Analysis.do_trial`, `do_trials` with
    `parallelize` (worker seeds drawn from the parent stream, `np.array_split` chunking) on a
    store `World` of services addressed by reference (aliasing expressible, fork = copy);
    `Op`/`run` put a history of operations around it.

  Core Lean only.  Numeric parts are written against the standard notation classes so the same
  definitions run on `Float` in the driver and are reasoned about over ordered fields in
  `Props/C08.lean`.
-/

namespace Rng

/-! ### RandomChoice -/

section choice
variable {F : Type}

/-- sequential prefix sums continuing from the accumulator `acc` -/
def cumFrom [Add F] (acc : F) : List F → List F
  | [] => []
  | p :: ps => (acc + p) :: cumFrom (acc + p) ps

/-- `np.cumsum(p, dtype=np.float64)` (sequential; the first entry is `p[0]` itself) -/
def cumsum [Add F] : List F → List F
  | [] => []
  | p :: ps => p :: cumFrom p ps

/-- `cdf = np.cumsum(p); cdf /= cdf[-1]`.  `none` = `IndexError` for an empty array. -/
def cdf [Add F] [Div F] (ps : List F) : Option (List F) :=
  match (cumsum ps).getLast? with
  | none => none
  | some t => some ((cumsum ps).map (fun c => c / t))

/-- `np.searchsorted(cdf, u, side=…)` for a non-decreasing `cdf`:
`side='right'` = number of entries `≤ u`, `side='left'` = number of entries `< u`. -/
def search [LE F] [LT F] [DecidableLE F] [DecidableLT F] (right : Bool) (c : List F) (u : F) : Nat :=
  if right then c.countP (fun x => decide (x ≤ u)) else c.countP (fun x => decide (x < u))

/-- `[o₀, o₁, …]` ↦ `[a₀, a₁, …]` when every entry is present (`none` = a Python exception) -/
def allSome {α : Type} : List (Option α) → Option (List α)
  | [] => some []
  | none :: _ => none
  | some a :: rest => (allSome rest).map (fun r => a :: r)

/-- `arr[is] = vs` (fancy-index assignment, later writes win) on an array of optional cells -/
def scatter {α : Type} : List (Option α) → List Nat → List α → List (Option α)
  | arr, i :: is, v :: vs => scatter (arr.set i (some v)) is vs
  | arr, _, _ => arr

/-- a concrete `np.argsort` (stable merge sort; numpy's quicksort may order ties differently —
`Props/C08` shows the result of `chooseCoded` is the same for *every* sorting permutation) -/
def argsort [LE F] [DecidableLE F] (us : List F) : List Nat :=
  (us.zipIdx.mergeSort (fun a b => decide (a.1 ≤ b.1))).map (fun a => a.2)

variable [Add F] [Div F] [LE F] [LT F] [DecidableLE F] [DecidableLT F]

/-- the index computation of `RandomChoice.__call__` as coded: `us` are the uniform deviates,
`perm` is `np.argsort(us)`.  `none` stands for an exception (IndexError). -/
def idxsCoded (right : Bool) (ps us : List F) (perm : List Nat) : Option (List Nat) :=
  match cdf ps with
  | none => none
  | some c =>
    -- uniform_values[idxs_of_sort]
    match allSome (perm.map (fun i => us[i]?)) with
    | none => none
    | some sortedUs =>
      let sortedIdxs := sortedUs.map (search right c)
      -- idxs = np.empty_like(sorted_idxs); idxs[idxs_of_sort] = sorted_idxs
      allSome (scatter (List.replicate sortedIdxs.length none) perm sortedIdxs)

/-- `RandomChoice.__call__` as coded -/
def chooseCoded {α : Type} (right : Bool) (items : List α) (ps us : List F) (perm : List Nat) :
    Option (List α) :=
  match idxsCoded right ps us perm with
  | none => none
  | some idxs => allSome (idxs.map (fun i => items[i]?))   -- items[idxs]

/-- specification form: one independent inverse-CDF look-up per uniform deviate -/
def idxsSpec (right : Bool) (ps us : List F) : Option (List Nat) :=
  match cdf ps with
  | none => none
  | some c => some (us.map (search right c))

def chooseSpec {α : Type} (right : Bool) (items : List α) (ps us : List F) : Option (List α) :=
  match idxsSpec right ps us with
  | none => none
  | some idxs => allSome (idxs.map (fun i => items[i]?))

end choice

/-! ### unused-seed search of `extend_trial_data_file` -/

/-- the generator expression of the pinned code on `sorted(np.unique(seeds)) + [None]`:
first `i` (counting from the given start) with `i != e`. -/
def firstMismatch : Nat → List Nat → Nat
  | i, [] => i                     -- `e = None`
  | i, e :: rest => if i ≠ e then i else firstMismatch (i + 1) rest

/-- pinned code: `enumerate(…, 1)` -/
def nextSeedOld (sortedUnique : List Nat) : Nat := firstMismatch 1 sortedUnique

/-- `next(i for i in itertools.count(i₀) if i not in used)` with explicit fuel -/
def firstUnused (used : List Nat) : Nat → Nat → Nat
  | 0, i => i
  | fuel + 1, i => if i ∈ used then firstUnused used fuel (i + 1) else i

/-- repaired code; `start` is the literal argument of `itertools.count` (read from the source) -/
def nextSeed (start : Nat) (used : List Nat) : Nat := firstUnused used (used.length + 1) start

/-- the seed the extension runs with: `rss.seed` if it does not occur in the file yet -/
def extendSeed (start : Nat) (used : List Nat) (cur : Nat) : Nat :=
  if cur ∈ used then nextSeed start used else cur

def extendSeedOld (sortedUnique : List Nat) (cur : Nat) : Nat :=
  if cur ∈ sortedUnique then nextSeedOld sortedUnique else cur

/-- a history of extensions `(requested rss seed, number of new rows ≥ 1)`: returns the seeds the
extensions ran with (oldest first); the file grows by the new rows, all labelled with that seed. -/
def extendMany (start : Nat) : List Nat → List (Nat × Nat) → List Nat
  | _, [] => []
  | file, (cur, rows) :: rest =>
    let s := extendSeed start file cur
    s :: extendMany start (file ++ List.replicate rows s) rest

/-- the same history driven by ONE service object, as real callers do: `extend_trial_data_file`
reseeds the caller's `rss`, so the next extension starts from the seed the previous one ran with -/
def extendShared (start : Nat) : List Nat → Nat → List Nat → List Nat
  | _, _, [] => []
  | file, cur, rows :: rest =>
    let s := extendSeed start file cur
    s :: extendShared start (file ++ List.replicate rows s) s rest

/-! ### random streams -/

/-- a `RandomStateService`: the seed it was (re)seeded with and the number of 32-bit words
consumed since -/
structure Stream where
  seed : Nat
  pos : Nat
deriving DecidableEq, Repr

namespace Stream
def fresh (seed : Nat) : Stream := ⟨seed, 0⟩
def adv (s : Stream) (k : Nat) : Stream := ⟨s.seed, s.pos + k⟩
/-- what a consumer sees: the words from the current position on -/
def view {V : Type} (gen : Nat → Nat → V) (s : Stream) : Nat → V := fun i => gen s.seed (s.pos + i)
end Stream

/-- configuration of a trial: pseudo-data generation and minimisation as functions of the stream
they read; each returns its output and the number of words it consumed. -/
structure TrialCfg (V D R : Type) where
  dataGen : (Nat → V) → D × Nat
  minim : D → (Nat → V) → R × Nat

structure TrialOut (D R : Type) where
  seed : Nat
  data : D
  fit : R

/-- named services: a store of `RandomStateService` objects addressed by reference.  Two
arguments of a call may be the *same* reference (`minimizer_rss is rss`): the store makes that
aliasing expressible. -/
abbrev World := Nat → Stream

def World.set (w : World) (a : Nat) (s : Stream) : World := fun b => if b = a then s else w b

/-- a newly constructed object enters a (copied) store at reference 0, every existing reference
shifts by one — a new object is never an alias of an existing one -/
def World.push (w : World) (s : Stream) : World := fun r =>
  match r with
  | 0 => s
  | r + 1 => w r

section streams
variable {V D R : Type}

/-- `Analysis.do_trial(rss=a, minimizer_rss=ms)` on the store `w`: returns the result row and the
store afterwards.  With `ms = none` the code builds `RandomStateService(seed=rss.seed)`, an object
nobody else holds (a value here); with `ms = some m` the caller's object is read and advanced in
place, *after* the pseudo data was drawn — for `m = a` the restarts read and shift the data stream. -/
def doTrial (gen : Nat → Nat → V) (cfg : TrialCfg V D R) (w : World) (a : Nat) (ms : Option Nat) :
    TrialOut D R × World :=
  let seed := (w a).seed
  let g := cfg.dataGen ((w a).view gen)
  let w1 := w.set a ((w a).adv g.2)
  match ms with
  | none =>
    let f := cfg.minim g.1 ((Stream.fresh seed).view gen)
    (⟨seed, g.1, f.1⟩, w1)
  | some m =>
    let f := cfg.minim g.1 ((w1 m).view gen)
    (⟨seed, g.1, f.1⟩, w1.set m ((w1 m).adv f.2))

/-- `n` trials one after the other on the same services (`parallelize` with `ncpu == 1`, and each
worker's loop) -/
def trialsSeq (gen : Nat → Nat → V) (cfg : TrialCfg V D R) :
    Nat → World → Nat → Option Nat → List (TrialOut D R) × World
  | 0, w, _, _ => ([], w)
  | n + 1, w, a, ms =>
    let r := doTrial gen cfg w a ms
    let rest := trialsSeq gen cfg n r.2 a ms
    (r.1 :: rest.1, rest.2)

/-- chunk lengths of `np.array_split(args_list, ncpu)` -/
def chunkSizes (n ncpu : Nat) : List Nat :=
  (List.range ncpu).map (fun i => n / ncpu + (if i < n % ncpu then 1 else 0))

/-- `RandomStateService(seed=rss.random.randint(0, 2**32)) for i in range(1, ncpu)` -/
def workerSeeds (gen : Nat → Nat → V) (toSeed : V → Nat) (rss : Stream) (ncpu : Nat) : List Nat :=
  (List.range (ncpu - 1)).map (fun i => toSeed (gen rss.seed (rss.pos + i)))

structure ParOut (D R : Type) where
  outs : List (TrialOut D R)
  workerSeeds : List Nat
  world : World

/-- `parallelize(do_trial, n tasks, ncpu, rss=a)` with `minimizer_rss=ms` in every task's kwargs:
results in task order.  The worker services are created in the parent, the processes are forked
(each sees a *copy* of the store plus its own new service; what it does to its copy is lost), then
the master computes the first chunk on the parent store. -/
def parTrials (gen : Nat → Nat → V) (toSeed : V → Nat) (cfg : TrialCfg V D R)
    (n ncpu : Nat) (w : World) (a : Nat) (ms : Option Nat) : ParOut D R :=
  if ncpu ≤ 1 then
    let r := trialsSeq gen cfg n w a ms
    ⟨r.1, [], r.2⟩
  else
    let seeds := workerSeeds gen toSeed (w a) ncpu
    let sizes := chunkSizes n ncpu
    let w1 := w.set a ((w a).adv (ncpu - 1))
    let rest := (seeds.zip sizes.tail).map (fun sk =>
      (trialsSeq gen cfg sk.2 (w1.push (Stream.fresh sk.1)) 0 (ms.map (· + 1))).1)
    let r0 := trialsSeq gen cfg (sizes.headD 0) w1 a ms
    ⟨r0.1 ++ rest.flatten, seeds, r0.2⟩

inductive Err where
  /-- `get_ncpu`: "The ncpu setting must be >= 1!" -/
  | valueError
  /-- `result_list[0]` on an empty result list -/
  | indexError
deriving DecidableEq, Repr

/-- `Analysis.do_trials(rss, n, ncpu, minimizer_rss)` including its error paths -/
def doTrials (gen : Nat → Nat → V) (toSeed : V → Nat) (cfg : TrialCfg V D R)
    (n ncpu : Nat) (w : World) (a : Nat) (ms : Option Nat) : Except Err (ParOut D R) :=
  if ncpu = 0 then .error .valueError
  else if n = 0 then .error .indexError
  else .ok (parTrials gen toSeed cfg n ncpu w a ms)

inductive Op where
  /-- any consumer drawing `k` words from service `svc` -/
  | draw (svc k : Nat)
  /-- `RandomStateService.reseed(seed)` (also: a new `RandomStateService(seed)` bound to the name) -/
  | reseed (svc seed : Nat)
  /-- `ana.do_trials(rss=svc, n, ncpu, minimizer_rss=msvc)` -/
  | trials (svc : Nat) (msvc : Option Nat) (n ncpu : Nat)

def Op.touches (a : Nat) : Op → Bool
  | .draw s _ => s == a
  | .reseed s _ => s == a
  | .trials s m _ _ => s == a || m == some a

def step (gen : Nat → Nat → V) (toSeed : V → Nat) (cfg : TrialCfg V D R) (w : World) :
    Op → World × List (TrialOut D R)
  | .draw s k => (w.set s ((w s).adv k), [])
  | .reseed s seed => (w.set s (Stream.fresh seed), [])
  | .trials s ms n ncpu =>
    let r := parTrials gen toSeed cfg n ncpu w s ms
    (r.world, r.outs)

/-- run a history; the outputs of all trial operations are concatenated -/
def run (gen : Nat → Nat → V) (toSeed : V → Nat) (cfg : TrialCfg V D R) :
    World → List Op → World × List (TrialOut D R)
  | w, [] => (w, [])
  | w, op :: rest =>
    let r := step gen toSeed cfg w op
    let r' := run gen toSeed cfg r.1 rest
    (r'.1, r.2 ++ r'.2)

end streams

/-! ### the time-generation service (`Livetime.draw_ontimes`, `TimeGenerator.generate_times`)

The state of a `Livetime` object is its up-time interval array (changed by the
`uptime_mjd_intervals_arr` setter) **and whatever a draw may leave behind on the object** — the
model gives the object a `cache` cell that the draw function reads and may write
(`LivetimeTimeGenerationMethod` and `TimeGenerator` only hold a reference to the `Livetime`).
The code at hand writes nothing; whether a given implementation's cache is harmless is the
hypothesis `Transparent` of the theorems, and it is that hypothesis which the fresh-vs-used
correspondence (`time_history`) tests on the real objects.  A draw reads `size` uniform deviates
(two words each) from the service it is given. -/

structure TimeCfg (V I W T C : Type) where
  /-- the times computed from the intervals, the object's cache cell, the optional window
  `(t_min, t_max)`, `size` and the deviates read from the stream view; and the new cache cell -/
  draw : I → Option C → Option W → Nat → (Nat → V) → T × Option C

/-- the cache never shows in the returned times -/
def TimeCfg.Transparent {V I W T C : Type} (tc : TimeCfg V I W T C) : Prop :=
  ∀ ivs c win size v, (tc.draw ivs c win size v).1 = (tc.draw ivs none win size v).1

inductive TOp (I W : Type) where
  /-- `draw_ontimes(rss=svc, size, t_min, t_max)` / `generate_times(rss=svc, size, …)` -/
  | draw (svc : Nat) (win : Option W) (size : Nat)
  /-- `livetime.uptime_mjd_intervals_arr = ivs` -/
  | setIvs (ivs : I)
  /-- any other consumer of `k` words of service `svc` -/
  | other (svc k : Nat)
  | reseed (svc seed : Nat)

def TOp.setsIvs {I W : Type} : TOp I W → Bool
  | .setIvs _ => true
  | _ => false

def TOp.touches {I W : Type} (a : Nat) : TOp I W → Bool
  | .draw s _ _ => s == a
  | .setIvs _ => false
  | .other s _ => s == a
  | .reseed s _ => s == a

structure TState (I C : Type) where
  ivs : I
  cache : Option C
  world : World

section times
variable {V I W T C : Type}

def tstep (gen : Nat → Nat → V) (tc : TimeCfg V I W T C) (st : TState I C) :
    TOp I W → TState I C × Option T
  | .draw s win size =>
    let r := tc.draw st.ivs st.cache win size ((st.world s).view gen)
    (⟨st.ivs, r.2, st.world.set s ((st.world s).adv (2 * size))⟩, some r.1)
  -- what the setter does with a cache is the implementation's business; the worst case (kept) is modelled
  | .setIvs ivs => (⟨ivs, st.cache, st.world⟩, none)
  | .other s k => (⟨st.ivs, st.cache, st.world.set s ((st.world s).adv k)⟩, none)
  | .reseed s seed => (⟨st.ivs, st.cache, st.world.set s (Stream.fresh seed)⟩, none)

def trun (gen : Nat → Nat → V) (tc : TimeCfg V I W T C) :
    TState I C → List (TOp I W) → TState I C × List (Option T)
  | st, [] => (st, [])
  | st, op :: rest =>
    let r := tstep gen tc st op
    let r' := trun gen tc r.1 rest
    (r'.1, r.2 :: r'.2)

/-- shape of the round-2 seeded change: the cumulative array of the *last* draw is kept in the cache
cell and used by the next plain draw (`C = W`: the window the cached array belongs to) -/
def leakyDraw : TimeCfg Nat Nat Nat (Nat × Option Nat) Nat where
  draw ivs c win _ v :=
    let used := match win with
      | some x => some x
      | none => c
    ((ivs + v 0, used), used)

end times

end Rng
