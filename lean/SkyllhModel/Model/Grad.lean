/-
  Model/Grad.lean — the gradient side of the log-likelihood ratio (property C02):
  `skyllh/core/llhratio.py`   `ZeroSigH0SingleDatasetTCLLHRatio.calculate_log_lambda_and_grads`,
                              `.calculate_ns_grad2`, `.evaluate`, `MultiDatasetTCLLHRatio.evaluate`,
                              `.calculate_ns_grad2`
  `skyllh/core/services.py`   `SrcDetSigYieldWeightsService.calculate` (a_jk, a_jk_grads),
                              `DatasetSignalWeightFactorsService.calculate` (f_j, f_j_grads)
  `skyllh/core/pdfratio.py`   `PDFRatioProduct.get_gradient`, `SourceWeightedPDFRatio.get_gradient`,
                              `SigOverBkgPDFRatio.get_gradient`
  and the consumers' rule that attaches the derivative w.r.t. a *local* source parameter to a global
  fit parameter: `src_params_recarray['<name>:gpidx'] == fitparam_id + 1`
  (`skyllh/core/signalpdf.py`, `skyllh/i3/pdfratio.py`, `skyllh/i3/detsigyield.py`).

  The value side (`LLH.logLambdaI`, `LLH.llr`, `LLH.xOfRatio`) is the model of C01 and is imported.
  Scalar-polymorphic, core Lean only: executed with `Float` in `Driver/C02.lean`, reasoned about with
  `ℝ` in `Props/C02.lean`.  Code mirrored (gradient part of `calculate_log_lambda_and_grads`):

      one_over_one_plus_alpha_i_stablemask = 1 / (1 + alpha_i[m_stable])
      nsgrad_i[m_stable]   = Xi[m_stable] * one_over_one_plus_alpha_i_stablemask
      nsgrad_i[m_unstable] = (1 - tildealpha_i) * Xi[m_unstable] / one_plus_alpha
      grads[ns_pidx] = np.sum(nsgrad_i) - (N - Nprime) / (N - ns)
      grads[p_mask]  = np.sum(ns * one_over_one_plus_alpha_i_stablemask[:, None] * dXi_dp[m_stable], axis=0)
      grads[p_mask] += np.sum(ns * (1 - tildealpha_i[:, None]) * dXi_dp[m_unstable] / one_plus_alpha, axis=0)
      nsgrad2 = -np.sum(self._cache_nsgrad_i**2) - (N - Nprime)/(N - ns)**2
-/
import SkyllhModel.Scalar
import SkyllhModel.Model.LLH

namespace Grad
open LLH

section
variable {F : Type} [Add F] [Sub F] [Mul F] [Div F] [Neg F] [LT F] [DecidableLT F]
  [OfNat F 0] [OfNat F 1] [OfScientific F] [Transc F]

/-! ### one dataset -/

/-- derivative of `LLH.lamOfAlpha opa` (log Λ_i as a function of α_i) -/
def dLamOfAlpha (opa a : F) : F :=
  if opa - 1 < a then 1 / (1 + a) else (1 - tildeAlpha opa a) / opa

/-- `nsgrad_i` for one event -/
def nsGradI (opa ns X : F) : F :=
  if opa - 1 < ns * X then X * (1 / (1 + ns * X))
  else (1 - tildeAlpha opa (ns * X)) * X / opa

/-- the summand of `grads[p_mask]` for one event and one fit parameter `p`; `dX = dX_i/dp` -/
def pGradI (opa ns X dX : F) : F :=
  if opa - 1 < ns * X then ns * (1 / (1 + ns * X)) * dX
  else ns * (1 - tildeAlpha opa (ns * X)) * dX / opa

/-- `(N - Nprime) / (N - ns)` -/
def bkgGrad (N nSel : Nat) (ns : F) : F :=
  Transc.ofI ((N : Int) - (nSel : Int)) / (Transc.ofN N - ns)

/-- `(N - Nprime)/(N - ns)**2` -/
def bkgGrad2 (N nSel : Nat) (ns : F) : F :=
  Transc.ofI ((N : Int) - (nSel : Int)) / ((Transc.ofN N - ns) * (Transc.ofN N - ns))

/-- `grads[ns_pidx]` of `calculate_log_lambda_and_grads` -/
def gradNs (opa : F) (N : Nat) (ns : F) (Xs : List F) : F :=
  sumF (Xs.map (nsGradI opa ns)) - bkgGrad N Xs.length ns

/-- one entry of `grads[p_mask]`: `dXs` = `dXi_dp[:, idx]` -/
def gradP (opa ns : F) (Xs dXs : List F) : F :=
  sumF (List.zipWith (pGradI opa ns) Xs dXs)

/-- `calculate_ns_grad2`, from the cached `nsgrad_i` -/
def nsGrad2 (opa : F) (N : Nat) (ns : F) (Xs : List F) : F :=
  -sumF (Xs.map (fun X => nsGradI opa ns X * nsGradI opa ns X)) - bkgGrad2 N Xs.length ns

/-- `dXi_dp[:, idx] = dRi / N` -/
def dxOfDRatio (N : Nat) (dR : F) : F := dR / Transc.ofN N

/-- `grads[ns_pidx] = gNs; grads[p_mask] = gPs` : the returned vector -/
def assemble (nsIdx : Nat) (gNs : F) (gPs : List F) : List F :=
  gPs.take nsIdx ++ gNs :: gPs.drop nsIdx

/-! ### ratio compositions -/

/-- `PDFRatioProduct.get_gradient` for one value; `dep1`/`dep2` = the result of
`is_global_fitparam_a_local_param` for the two factors -/
def productGrad (dep1 dep2 : Bool) (r1 r2 dr1 dr2 : F) : F :=
  if dep1 && dep2 then r1 * dr2 + dr1 * r2
  else if dep1 then dr1 * r2
  else if dep2 then r1 * dr2
  else 0

/-- `SigOverBkgPDFRatio.get_gradient` for one value (cases 1–4); `0` where the background density is
not positive -/
def sobGrad (sigDep bkgDep : Bool) (s b ds db : F) : F :=
  if !sigDep && !bkgDep then 0
  else if 0 < b then
    if sigDep && !bkgDep then ds / b
    else if sigDep && bkgDep then (ds * b - db * s) / (b * b)
    else -s / (b * b) * db
  else 0

/-- `Σ_k x_k y_k` -/
def dot (xs ys : List F) : F := sumF (List.zipWith (· * ·) xs ys)

/-- `SourceWeightedPDFRatio.get_ratio` for one event: `Rk` the ratios of the `K` sources for this event
(`0` for a source whose (source, event) pair was not selected), `ak = a_jk[dataset_idx]`.
`if A != 0: R_i /= A` — a dataset in which no source has any signal yield keeps the (zero) numerator.
(`A != 0` is written with the order relation the scalar interface has: `0 < A ∨ A < 0`.) -/
def wRatio (ak Rk : List F) : F :=
  if 0 < sumF ak ∨ sumF ak < 0 then dot Rk ak / sumF ak else dot Rk ak

/-- `SourceWeightedPDFRatio.get_gradient` for one event:
`(-R_i*dAdp + Σ_k (a_k_grad[k]*R_ik + a_k[k]*R_ik_grad))`, divided by `A` only `if A != 0` -/
def wRatioGrad (ak dak Rk dRk : List F) : F :=
  if 0 < sumF ak ∨ sumF ak < 0 then (-(wRatio ak Rk) * sumF dak + (dot dak Rk + dot ak dRk)) / sumF ak
  else -(wRatio ak Rk) * sumF dak + (dot dak Rk + dot ak dRk)

/-- `SourceWeightedPDFRatio.get_gradient` with its early exit: `return 0` iff the yield gradient is the int `0`
(`fitparam_id not in a_jk_grads`, flag `yDep = false`) **and** the wrapped PDF ratio returned the int `0`
(flag `rDep = false`); otherwise the quotient-rule expression -/
def wRatioGradCode (yDep rDep : Bool) (ak dak Rk dRk : List F) : F :=
  if !yDep && !rDep then 0 else wRatioGrad ak dak Rk dRk

/-! ### weights -/

/-- `a_jk[ds] = src_weights * Y` (and, with `dY`, `a_jk_grads[p][ds] = src_weights * Yg_grads[p]`) -/
def aRow (W Y : List F) : List F := List.zipWith (· * ·) W Y

/-- `a = np.sum(a_jk)` -/
def total (a : List (List F)) : F := sumF (a.map sumF)

/-- `f_j = a_j / a` for the dataset with row `row` -/
def fjRow (a : List (List F)) (row : List F) : F := sumF row / total a

/-- `f_j_grads[p][j] = (a_j_grads * a - a_j * a_grads) / a**2` -/
def fjGradRow (a da : List (List F)) (row drow : List F) : F :=
  (sumF drow * total a - sumF row * total da) / (total a * total a)

def fj (a : List (List F)) : List F := a.map (fjRow a)

def fjGrad (a da : List (List F)) : List F := List.zipWith (fjGradRow a da) a da

/-! ### several datasets -/

/-- what one dataset contributes: total number of events, the `X_i` and, for every fit parameter other
than `ns` (in the order of `fitparam_ids[p_mask]`), the `dX_i/dp` -/
structure DS (F : Type) where
  N : Nat
  Xs : List F
  dXs : List (List F)

/-- `MultiDatasetTCLLHRatio.evaluate(...)[0]` -/
def multiValue (opa ns : F) (f : List F) (ds : List (DS F)) : F :=
  sumF (List.zipWith (fun fj d => llr opa d.N (ns * fj) d.Xs) f ds)

/-- `grads[ns_pidx] += grads_j[ns_pidx] * f[j]` -/
def multiGradNs (opa ns : F) (f : List F) (ds : List (DS F)) : F :=
  sumF (List.zipWith (fun fj d => gradNs opa d.N (ns * fj) d.Xs * fj) f ds)

/-- `grads[pmask] += grads_j[ns_pidx] * ns * f_grads[j][pmask] + grads_j[pmask]` for the `q`-th
non-ns fit parameter; `df = f_grads[:, p]` -/
def multiGradP (opa ns : F) (f df : List F) (ds : List (DS F)) (q : Nat) : F :=
  sumF (List.zipWith (fun (fd : F × F) d =>
      gradNs opa d.N (ns * fd.1) d.Xs * ns * fd.2 + gradP opa (ns * fd.1) d.Xs (d.dXs.getD q []))
    (List.zip f df) ds)

/-- `MultiDatasetTCLLHRatio.calculate_ns_grad2`: `np.sum(nsgrad2j * f**2)` -/
def multiNsGrad2 (opa ns : F) (f : List F) (ds : List (DS F)) : F :=
  sumF (List.zipWith (fun fj d => nsGrad2 opa d.N (ns * fj) d.Xs * (fj * fj)) f ds)

end

/-! ### the stacked pipeline from the leaves (what the driver runs)

Leaves: source weights `W` (K), per dataset the yields `Y` (K) and their derivatives w.r.t. the local
source parameters `dY` (K × L), per selected event and source the leaf ratio(s) and their derivatives
w.r.t. the local parameters of that source.  `gp` is the `<name>:gpidx` table (K × L, `Int`) of the
parameter layout; a consumer for fit parameter `p` picks the local derivatives with `gp = p + 1`. -/

section
variable {F : Type} [Add F] [Sub F] [Mul F] [Div F] [Neg F] [LT F] [DecidableLT F]
  [OfNat F 0] [OfNat F 1] [OfScientific F] [Transc F]

/-- the consumers' mapping rule for one source: `Σ_n [gp_n = p+1] d_n` -/
def locToFit (gpRow : List Int) (dRow : List F) (p : Nat) : F :=
  sumF (List.zipWith (fun g d => if g = (p : Int) + 1 then d else 0) gpRow dRow)

/-- does fit parameter `p` translate into local parameter `n` of some source
(`is_global_fitparam_a_local_param` with `local_param_names = [n]`) -/
def dependsOn (gp : List (List Int)) (n p : Nat) : Bool :=
  gp.any (fun row => row.getD n 0 == (p : Int) + 1)

/-- one (event, source) leaf: the two factor ratios (factor A depends on local parameter 0, factor B on
local parameter 1) and their local derivatives -/
structure Leaf (F : Type) where
  rA : F
  rB : F
  dA : F
  dB : F

/-- one dataset of the stacked analysis -/
structure DSIn (F : Type) where
  N : Nat
  /-- factor A of the PDF ratio has the local parameter 0 in its `param_names` (else it is parameter-free and
  its `get_gradient` returns the int `0`) -/
  parA : Bool
  /-- the same for factor B and local parameter 1 -/
  parB : Bool
  Y : List F                 -- K
  dY : List (List F)         -- K × L
  ev : List (List (Leaf F))  -- nSel × K

/-- the ratio of one (event, source) pair: `PDFRatioProduct.get_ratio` -/
def leafRatio (l : Leaf F) : F := l.rA * l.rB

/-- its derivative w.r.t. fit parameter `p`: the stub factors sum their local derivative where
`gp = p+1`, the product rule is `PDFRatioProduct.get_gradient` -/
def leafGrad (parA parB : Bool) (gp : List (List Int)) (gpRow : List Int) (p : Nat) (l : Leaf F) : F :=
  let dA := if parA && decide (gpRow.getD 0 0 = (p : Int) + 1) then l.dA else 0
  let dB := if parB && decide (gpRow.getD 1 0 = (p : Int) + 1) then l.dB else 0
  productGrad (parA && dependsOn gp 0 p) (parB && dependsOn gp 1 p) l.rA l.rB dA dB

/-- does the product ratio return an array (not the int `0`) for fit parameter `p`:
`is_global_fitparam_a_local_param` over the `param_names` of either factor -/
def ratioDep (parA parB : Bool) (gp : List (List Int)) (p : Nat) : Bool :=
  (parA && dependsOn gp 0 p) || (parB && dependsOn gp 1 p)

/-- `fitparam_id in a_jk_grads`: some source's yield has a gradient key for fit parameter `p` (the yields know both
local parameters) -/
def yieldDep (gp : List (List Int)) (p : Nat) : Bool := dependsOn gp 0 p || dependsOn gp 1 p

/-- the fit-parameter ids other than ns, in order (`fitparam_ids[p_mask]`) -/
def otherIds (nFit nsIdx : Nat) : List Nat := (List.range nFit).filter (· != nsIdx)

structure Result (F : Type) where
  value : F
  grads : List F
  nsGrad2 : F

/-- `a_jk` : one row per dataset -/
def stA (W : List F) (ds : List (DSIn F)) : List (List F) := ds.map (fun d => aRow W d.Y)

/-- `a_jk_grads[p]`: the yield derivative w.r.t. fit parameter `p` collected with the consumers' rule -/
def stDaRow (gp : List (List Int)) (W : List F) (d : DSIn F) (p : Nat) : List F :=
  aRow W (List.zipWith (fun g dy => locToFit g dy p) gp d.dY)

def stDa (gp : List (List Int)) (W : List F) (ds : List (DSIn F)) (p : Nat) : List (List F) :=
  ds.map (fun d => stDaRow gp W d p)

/-- what `ZeroSigH0SingleDatasetTCLLHRatio.evaluate` derives for one dataset from the source-weighted ratio:
`X_i` and, for every non-ns fit parameter of `ps` (in that order), `dX_i/dp` -/
def stDS (ps : List Nat) (gp : List (List Int)) (W : List F) (d : DSIn F) : DS F :=
  let ak := aRow W d.Y
  { N := d.N
    Xs := d.ev.map (fun row => xOfRatio d.N (wRatio ak (row.map leafRatio)))
    dXs := ps.map (fun p =>
      d.ev.map (fun row =>
        dxOfDRatio d.N (wRatioGradCode (yieldDep gp p) (ratioDep d.parA d.parB gp p) ak (stDaRow gp W d p)
          (row.map leafRatio) (List.zipWith (fun g l => leafGrad d.parA d.parB gp g p l) gp row)))) }

def stDss (nFit nsIdx : Nat) (gp : List (List Int)) (W : List F) (ds : List (DSIn F)) : List (DS F) :=
  ds.map (stDS (otherIds nFit nsIdx) gp W)

/-- the entries of the non-ns fit parameters, in the order of `fitparam_ids[p_mask]` -/
def stGradPs (opa ns : F) (nFit nsIdx : Nat) (gp : List (List Int)) (W : List F) (ds : List (DSIn F)) :
    List F :=
  (otherIds nFit nsIdx).zipIdx.map (fun pq =>
    multiGradP opa ns (fj (stA W ds)) (fjGrad (stA W ds) (stDa gp W ds pq.1)) (stDss nFit nsIdx gp W ds) pq.2)

/-- whole pipeline: `MultiDatasetTCLLHRatio.evaluate` + `calculate_ns_grad2` -/
def stacked (opa ns : F) (nFit nsIdx : Nat) (gp : List (List Int)) (W : List F)
    (ds : List (DSIn F)) : Result F :=
  let f := fj (stA W ds)
  let dss := stDss nFit nsIdx gp W ds
  { value := multiValue opa ns f dss
    grads := assemble nsIdx (multiGradNs opa ns f dss) (stGradPs opa ns nFit nsIdx gp W ds)
    nsGrad2 := multiNsGrad2 opa ns f dss }

/-- `f_grads[:, pidx] = f_grads_dict[pidx]` into the `(J, n_fitparams)` array of `MultiDatasetTCLLHRatio.evaluate`:
every gradient-dictionary key (`gpidx - 1` of a positive `gpidx`) must be `< n_fitparams`, else `IndexError` -/
def keysOk (nFit : Nat) (gp : List (List Int)) : Bool :=
  gp.all (fun row => row.all (fun g => decide (g ≤ (nFit : Int))))

/-- `stacked` with the one exception the bookkeeping can raise made explicit -/
def stackedChecked (opa ns : F) (nFit nsIdx : Nat) (gp : List (List Int)) (W : List F)
    (ds : List (DSIn F)) : Except String (Result F) :=
  if keysOk nFit gp then .ok (stacked opa ns nFit nsIdx gp W ds) else .error "IndexError"

end

end Grad
