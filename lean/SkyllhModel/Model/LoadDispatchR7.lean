/-
  Round 7 (C17): the FileLoader registry and the choice of the loader class
  (skyllh/core/storage.py: `register_FileLoader`, `create_FileLoader`), mirrored as coded.

  Strings are lists of code points (`Nat`), so that Python's `str` comparison (`sorted`), `str.lower()` on
  ASCII and the slice `s[-n:]` are plain arithmetic.  The registry `_FILE_LOADER_REG` is an association
  list in insertion order (a Python dict); loader classes are an arbitrary type `L`.
  Python exceptions are `DErr`.
-/
namespace LoadR7

inductive DErr
  | typeError     -- TypeError: argument of the wrong kind
  | keyError      -- KeyError: The format is already registered
  | indexError    -- IndexError: `pathfilenames[0]` of an empty sequence
  | noLoader      -- RuntimeError: No FileLoader class is suitable to load the data file
  | valueError    -- ValueError: no readable table header as first line / `str.split('')`: empty separator
  | noColumns     -- ValueError: No data columns were selected to be loaded
  deriving DecidableEq, Repr, Inhabited

abbrev Str := List Nat

/-- `str.lower()` on ASCII code points -/
def lowerC (c : Nat) : Nat := if 65 ≤ c ∧ c ≤ 90 then c + 32 else c

def lower (s : Str) : Str := s.map lowerC

/-- the Python slice `s[-n:]`: the whole string for `n = 0` (`s[-0:] = s[0:]`) and for `n ≥ len(s)` -/
def pySuffix (n : Nat) (s : Str) : Str := if n = 0 then s else s.drop (s.length - n)

/-- `pathfilenames[0][-fmt_len:].lower() == fmt.lower()` -/
def fmtMatches (fmt p : Str) : Bool := lower (pySuffix fmt.length p) == lower fmt

/-- `<` of Python `str` (lexicographic by code point) -/
def strLt : Str → Str → Bool
  | [], [] => false
  | [], _ :: _ => true
  | _ :: _, [] => false
  | a :: as, b :: bs => if a < b then true else if b < a then false else strLt as bs

def insertSorted (k : Str) : List Str → List Str
  | [] => [k]
  | x :: xs => if strLt k x then k :: x :: xs else x :: insertSorted k xs

/-- `sorted(_FILE_LOADER_REG.keys())` (dict keys are distinct, so every correct sort gives this list) -/
def sortedKeys (ks : List Str) : List Str := ks.foldr insertSorted []

/-- the `for fmt in formats:` loop: the first format (in sorted order) that matches -/
def firstMatch (p : Str) : List Str → Option Str
  | [] => none
  | f :: fs => if fmtMatches f p then some f else firstMatch p fs

/-- `_FILE_LOADER_REG[fmt]` -/
def regLookup {L : Type} (k : Str) : List (Str × L) → Option L
  | [] => none
  | (k', c) :: r => if k' = k then some c else regLookup k r

/-- argument forms of `pathfilenames`: a `str`, a sequence of `str`, anything else -/
inductive PathArg
  | str (p : Str)
  | seq (ps : List Str)
  | other

def createGo {L : Type} (reg : List (Str × L)) (ps : List Str) : Except DErr (L × List Str) :=
  let formats := sortedKeys (reg.map Prod.fst)
  match ps with
  | [] => .error .indexError
  | p :: _ =>
    match firstMatch p formats with
    | some f =>
      match regLookup f reg with
      | some cls => .ok (cls, ps)
      | none => .error .keyError
    | none => .error .noLoader

/-- `create_FileLoader(pathfilenames)`: the chosen class and the path list handed to its constructor -/
def createLoader {L : Type} (reg : List (Str × L)) : PathArg → Except DErr (L × List Str)
  | .other => .error .typeError
  | .str p => createGo reg [p]
  | .seq ps => createGo reg ps

/-- the `for fmt in formats:` loop of `register_FileLoader`; the registry is modified in place, so the
    formats before a refused one stay registered: the result is the registry *and* the outcome -/
def registerGo {L : Type} (cls : L) : List Str → List (Str × L) → List (Str × L) × Option DErr
  | [], reg => (reg, none)
  | f :: fs, reg =>
    if (reg.map Prod.fst).contains f then (reg, some .keyError)
    else registerGo cls fs (reg ++ [(f, cls)])

/-- argument forms of `formats` -/
inductive FmtArg
  | str (f : Str)
  | seq (fs : List Str)
  | other

/-- `register_FileLoader(formats, fileloader_cls)`; `isLoader` = `issubclass(fileloader_cls, FileLoader)` -/
def registerLoader {L : Type} (reg : List (Str × L)) (formats : FmtArg) (isLoader : Bool) (cls : L) :
    List (Str × L) × Option DErr :=
  match formats with
  | .other => (reg, some .typeError)
  | .str f => if isLoader then registerGo cls [f] reg else (reg, some .typeError)
  | .seq fs => if isLoader then registerGo cls fs reg else (reg, some .typeError)

/-! ### the table header of a text file (`TextFileLoader._extract_column_names`, head of `_load_file`) -/

/-- `str.isspace` on ASCII code points (what `str.strip()` and `str.split()` remove) -/
def isSpace (c : Nat) : Bool := (9 ≤ c && c ≤ 13) || (28 ≤ c && c ≤ 32)

/-- `s.strip(chars)` / `s.strip()`: remove the characters satisfying `f` from both ends -/
def stripBy (f : Nat → Bool) (s : Str) : Str := ((s.dropWhile f).reverse.dropWhile f).reverse

/-- `s.split()`: maximal runs of non-whitespace characters (`cur` = the current run, reversed) -/
def splitWsGo : Str → Str → List Str
  | cur, [] => if cur.isEmpty then [] else [cur.reverse]
  | cur, c :: cs =>
    if isSpace c then (if cur.isEmpty then splitWsGo [] cs else cur.reverse :: splitWsGo [] cs)
    else splitWsGo (c :: cur) cs

def splitWs (s : Str) : List Str := splitWsGo [] s

/-- `s.split(sep)` for a non-empty separator: left to right, non-overlapping, empty pieces kept -/
def splitSepGo (sep : Str) : Nat → Str → Str → List Str
  | 0, cur, _ => [cur.reverse]
  | _ + 1, cur, [] => [cur.reverse]
  | fuel + 1, cur, c :: cs =>
    if sep.isPrefixOf (c :: cs) then cur.reverse :: splitSepGo sep fuel [] ((c :: cs).drop sep.length)
    else splitSepGo sep fuel (c :: cur) cs

def splitSep (sep s : Str) : List Str := splitSepGo sep (s.length + 1) [] s

/-- `TextFileLoader._extract_column_names(line)`: `ok none` = the method returns `None` -/
def extractColumnNames (comment : Str) (sep : Option Str) (line : Str) : Except DErr (Option (List Str)) :=
  let l1 := stripBy isSpace line
  if l1.take comment.length != comment then .ok none
  else
    let l2 := stripBy (fun c => comment.contains c) l1
    let l3 := stripBy isSpace l2
    match sep with
    | some [] => .error .valueError
    | none =>
      let names := (splitWs l3).map (stripBy isSpace)
      if names.isEmpty then .ok none else .ok (some names)
    | some sp =>
      let names := (splitSep sp l3).map (stripBy isSpace)
      if names.isEmpty then .ok none else .ok (some names)

/-- the `enumerate(column_names)` loop: indices and names of the columns listed in `keep_fields` -/
def usecolsGo (keep : List Str) : Nat → List Str → List (Nat × Str)
  | _, [] => []
  | i, n :: ns => if keep.contains n then (i, n) :: usecolsGo keep (i + 1) ns else usecolsGo keep (i + 1) ns

/-- head of `TextFileLoader._load_file`: the selected field names and `usecols` (`none` = all columns) -/
def headerSelect (comment : Str) (sep : Option Str) (line : Str) (keep : Option (List Str)) :
    Except DErr (List Str × Option (List Nat)) :=
  match extractColumnNames comment sep line with
  | .error e => .error e
  | .ok none => .error .valueError
  | .ok (some cols) =>
    match keep with
    | none => if cols.isEmpty then .error .noColumns else .ok (cols, none)
    | some ks =>
      let sel := usecolsGo ks 0 cols
      if sel.isEmpty then .error .noColumns else .ok (sel.map Prod.snd, some (sel.map Prod.fst))

end LoadR7
