/-
  Model/PseudoData.lean — pseudo-data generation and trial initialisation as sequences of container
  operations on the heap model of `Model/Store.lean` (C07; core Lean only).

  The stored data `data.exp` / `data.mc` are two containers of the store; every generator is the exact
  sequence of `DataFieldRecordArray` operations the code performs:

  * `FixedScrambledExpDataI3BkgGenMethod.generate_events`: `scramble_data(data.exp, copy=True)` =
    `data.exp.copy()` followed by `data[f] = <new array>` for the documented fields of the scrambling method;
  * `MCDataSamplingBkgGenMethod.generate_events`: on a changed data id `_cache_mc = data.mc.copy(keep_fields)`
    (optionally replaced by the pre-selection `_cache_mc[idxs]`), `_cache_mc.indices`; then
    `bkg = _cache_mc[drawn indices]`, optional in-place scrambling of `bkg` (`copy=False`), `bkg.tidy_up(exp fields)`;
  * `CompositeMCDataSamplingBkgGenMethod.generate_events`: on every call `data_mc = data.mc.copy(keep_fields)`,
    in-place scrambling of `data_mc`, `data_mc[component] = rate` for every background component, optional
    pre-selection, `data_mc.indices`, `bkg = data_mc[drawn indices]`, `bkg.tidy_up(exp fields)`;
  * signal events are a new container; they are merged by `bkg.append(sig)`;
  * `TrialDataManager.initialize_trial(events)` adopts the given container: pre-selection static fields are
    assigned into it, the event selection replaces it by `events[idxs]`; with an index field the events are sorted —
    a copy of them if they are still the caller's container —, the static data fields are assigned into the result;
  * `evaluate`: `TrialDataManager.calculate_global_fitparam_data_fields` assigns `tdm.events[name] = values`;
  * `unblind` (after the `fix:` commit) initialises the trial on `data.exp.copy()`; `unblindAdopt` is the code
    before the fix, which handed `data.exp` itself to the trial data manager.

  Random draws, scrambled values, drawn indices and the argsort permutation are inputs of the model.
-/
import SkyllhModel.Model.Store
import SkyllhModel.Scalar

namespace Pseudo
open Store

/-- the container an operation rebinds or writes (`none`: the operation creates a container) -/
def target : Op → Option Nat
  | .append c _ => some c
  | .appendField c _ _ => some c
  | .setItem c _ _ => some c
  | .removeField c _ => some c
  | .rename c _ _ => some c
  | .tidyUp c _ => some c
  | .getSel _ _ => none
  | .setSel c _ _ => some c
  | .sortBy c _ _ => some c
  | .copy _ _ => none
  | .setDtype c _ _ => some c
  | .convert c _ _ => some c
  | .indices c => some c
  | .new _ => none

structure Roles where
  exp : Nat              -- DatasetData.exp
  mc : Nat               -- DatasetData.mc
  cache : Option Nat     -- MCDataSamplingBkgGenMethod._cache_mc
  events : Option Nat    -- TrialDataManager.events
  deriving Repr, DecidableEq

/-- what `TrialDataManager.initialize_trial` does besides adopting the container -/
structure TrialCfg where
  pre : List (Name × Col)            -- pre-event-selection static data fields
  sel : Option Sel                   -- indices chosen by the event selection method
  index : Option (Name × List Nat)   -- index field and the permutation returned by np.argsort
  stat : List (Name × Col)           -- static data fields
  deriving Repr

/-- the data scrambling methods of skyllh -/
inductive Scr | uniformRA | i3time | seasonal | time
  deriving DecidableEq, Repr

/-- the fields each method assigns, in the order of assignment (field numbers: ra = 0, dec = 1, time = 2):
`UniformRAScramblingMethod`: `data['ra']`; `I3TimeScramblingMethod`, `I3SeasonalVariationTimeScramblingMethod`:
`data['time']`, `data['ra']`; `TimeScramblingMethod`: `data['time']`, `(data['ra'], data['dec'])` -/
def documented : Scr → List Name
  | .uniformRA => [0]
  | .i3time => [2, 0]
  | .seasonal => [2, 0]
  | .time => [2, 0, 1]

/-- the assignments of a scrambling method, given the arrays it computed -/
def scrSets : Option Scr → List Col → List (Name × Col)
  | none, _ => []
  | some m, vals => (documented m).zip vals

inductive GOp
  | genFixed (scr : Scr) (vals : List Col)
  | genMC (keep : List Name) (presel : Option Sel) (draw : List Int) (scr : Option Scr) (vals : List Col) (expFields : List Name)
  | genComposite (keep : List Name) (scr : Option Scr) (vals : List Col) (rates : List (Name × Col)) (presel : Option Sel)
      (draw : List Int) (expFields : List Name)
  | genSigMC (ev : List Int) (post : List (Name × Col)) (empty : List (Name × Col)) (fill : List Int)
  | genSig (cols : List (Name × Col))
  | merge (b s : Nat)
  | initTrial (e : Nat) (cfg : TrialCfg)
  | unblind (cfg : TrialCfg)
  | unblindAdopt (cfg : TrialCfg)
  | evaluate (fields : List (Name × Col))
  | resetCache      -- MCDataSamplingBkgGenMethod.change_shg_mgr / a new data id: the MC cache is invalidated
  deriving Repr

def setItems (c : Nat) (sets : List (Name × Col)) : List Op := sets.map fun p => .setItem c p.1 p.2

def sortOps (c : Nat) : Option (Name × List Nat) → List Op
  | none => []
  | some (n, perm) => [.sortBy c n perm]

/-- `initialize_trial` on the adopted container `e`; `n0` = number of existing containers = the id the
selection gets.  Returns the operations and the container that ends up as `tdm.events`. -/
def trialOps (n0 e : Nat) (cfg : TrialCfg) : List Op × Nat :=
  match cfg.sel with
  | none =>
    match cfg.index with
    | none => (setItems e cfg.pre ++ setItems e cfg.stat, e)
    | some idx =>
      -- no event was rejected, the events are still the caller's container: sorted is a copy of it (sort_by_field works
      -- in place on the container it is called on), and the static data fields go into that copy
      (setItems e cfg.pre ++ [.copy e none] ++ sortOps n0 (some idx) ++ setItems n0 cfg.stat, n0)
  | some sel => (setItems e cfg.pre ++ [.getSel e sel] ++ sortOps n0 cfg.index ++ setItems n0 cfg.stat, n0)

/-- the MC cache of `MCDataSamplingBkgGenMethod`: operations that build it if it is not there, the container
holding it, the id the next created container gets -/
def cachePlan (n0 : Nat) (r : Roles) (keep : List Name) (presel : Option Sel) : List Op × Nat × Nat :=
  match r.cache with
  | some c => ([], c, n0)
  | none =>
    match presel with
    | none => ([.copy r.mc (some keep), .indices n0], n0, n0 + 1)
    | some sel => ([.copy r.mc (some keep), .getSel n0 sel, .indices (n0 + 1)], n0 + 1, n0 + 2)

/-- sampling from the per-trial MC copy `n0` of `CompositeMCDataSamplingBkgGenMethod`: optional pre-selection
(`data_mc = data_mc[idxs]`), `data_mc.indices`, `bkg = data_mc[drawn indices]`; returns the container of `bkg` -/
def compositePlan (n0 : Nat) (presel : Option Sel) (draw : List Int) : List Op × Nat :=
  match presel with
  | none => ([.indices n0, .getSel n0 (.idx draw)], n0 + 1)
  | some sel => ([.getSel n0 sel, .indices (n0 + 1), .getSel (n0 + 1) (.idx draw)], n0 + 2)

/-- operations, new roles, handle returned to the caller -/
def compile (n0 : Nat) (r : Roles) : GOp → List Op × Roles × Option Nat
  | .genFixed scr vals => ([.copy r.exp none] ++ setItems n0 (scrSets (some scr) vals), r, some n0)
  | .genMC keep presel draw scr vals expFields =>
    let p := cachePlan n0 r keep presel
    (p.1 ++ [.getSel p.2.1 (.idx draw)] ++ setItems p.2.2 (scrSets scr vals) ++ [.tidyUp p.2.2 expFields],
     { r with cache := some p.2.1 }, some p.2.2)
  | .genComposite keep scr vals rates presel draw expFields =>
    -- CompositeMCDataSamplingBkgGenMethod: a fresh reduced copy of data.mc on *every* call, scrambled in place
    -- (copy=False), the rate of every background component assigned into it, optional pre-selection, then sampling
    let p := compositePlan n0 presel draw
    ([.copy r.mc (some keep)] ++ setItems n0 (scrSets scr vals) ++ setItems n0 rates ++ p.1 ++ [.tidyUp p.2 expFields], r, some p.2)
  | .genSigMC ev post empty fill =>
    -- MCMultiDatasetSignalGenerator (one source hypothesis group, no re-draw): `k = data.mc[ev_idx]`, the post-sampling
    -- processing assigns the rotated coordinates into `k`, the signal container is built from np.empty arrays and filled
    -- by `sig_events.set_selection(indices, k)` — the only write-through operation of the pipeline, on a generated container
    ([.getSel r.mc (.idx ev)] ++ setItems n0 post ++ [.new empty, .setSel (n0 + 1) (.idx fill) n0], r, some (n0 + 1))
  | .genSig cols => ([.new cols], r, some n0)
  | .merge b s => ([.append b s], r, some b)
  | .initTrial e cfg =>
    let (ops, ev) := trialOps n0 e cfg
    (ops, { r with events := some ev }, some ev)
  | .unblind cfg =>
    let (ops, ev) := trialOps (n0 + 1) n0 cfg
    ([.copy r.exp none] ++ ops, { r with events := some ev }, some ev)
  | .unblindAdopt cfg =>
    let (ops, ev) := trialOps n0 r.exp cfg
    (ops, { r with events := some ev }, some ev)
  | .evaluate fields =>
    -- the evaluation of the LLH ratio assigns the data fields that depend on global fit parameters into tdm.events
    match r.events with
    | some ev => (setItems ev fields, r, none)
    | none => ([], r, none)
  | .resetCache => ([], { r with cache := none }, none)

structure G where
  st : St
  roles : Roles
  deriving Repr

def gstep (g : G) (op : GOp) : G × Option Nat :=
  let (ops, r', h) := compile g.st.conts.length g.roles op
  (⟨runH g.st ops, r'⟩, h)

def grun (g : G) : List GOp → G
  | [] => g
  | op :: r => grun (gstep g op).1 r

/-- handles given by the caller are generated containers, never the stored ones -/
def HandlesOK (r : Roles) : GOp → Prop
  | .merge b _ => b ≠ r.exp ∧ b ≠ r.mc
  | .initTrial e _ => e ≠ r.exp ∧ e ≠ r.mc
  | .unblindAdopt _ => False
  | _ => True

/-! ### right ascension of the scrambled events (scalar-polymorphic) -/

/-! ### how many events are drawn (scalar-polymorphic) -/

/-- `MCDataSamplingBkgGenMethod.generate_events`: `n_bkg` events are expected for the whole MC (Poisson draw or the rounded
mean); from the (pre-selected) MC sample `around(n_bkg * mean_pre_selected / mean)` events are drawn, where
`mean_pre_selected = mean` when there is no pre-selection.  This is the value before rounding, in the code's order of operations. -/
def nBkgRaw {F : Type} [Mul F] [Div F] [Transc F] (nBkg : Nat) (meanSel mean : F) : F :=
  Transc.ofN nBkg * meanSel / mean

/-- the number of drawn events for IEEE doubles (`np.around(x, 0)` = round half to even) -/
def nBkgSelected (nBkg : Nat) (meanSel mean : Float) : Nat :=
  (FloatImpl.rint (nBkgRaw nBkg meanSel mean)).toUInt64.toNat

/-- `RandomState.uniform(lo, hi)` = `lo + (hi - lo) * u` with `u` in `[0, 1)` -/
def uniformRA {F : Type} [Add F] [Sub F] [Mul F] (lo hi u : F) : F := lo + (hi - lo) * u

end Pseudo
