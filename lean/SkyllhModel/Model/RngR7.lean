import SkyllhModel.Model.Rng
/-!
# C08 round 7: `RandomStateService` as an object

`skyllh/core/random.py`: `RandomStateService.__init__`, the `seed` property and `reseed`, with the argument
forms `int_cast(seed, …, allow_None=True)` accepts or refuses (`skyllh/core/py.py`) and numpy's own check of
the seed (`RandomState(seed)` / `RandomState.seed(seed)`: `None` = operating-system entropy, an integer in
`[0, 2**32)` is accepted, anything else raises `ValueError` and leaves the generator as it was).

The object has two cells: the label `_seed` and the generator held in `random`.  The property text's
"same seed, same result" needs the label to describe the generator; `reseed` writes both cells, and the order
in which it does so decides what is left behind when numpy refuses the seed (`assignAfter`, read from the
source by the harness).
-/
namespace RngR7
open Rng

/-- what a caller can hand over as `seed` -/
inductive SeedArg where
  /-- `None` -/
  | none
  /-- anything `int(v)` accepts (int, numpy integer, digit string, float): the value of `int(v)` -/
  | int (v : Int)
  /-- anything `int(v)` refuses (a list, a non-numeric string, an object) -/
  | bad
deriving DecidableEq, Repr

inductive RErr where
  | typeError
  | valueError
deriving DecidableEq, Repr

/-- `int_cast(v, errmsg, allow_None=True)` -/
def intCast : SeedArg → Except RErr (Option Int)
  | .none => .ok none
  | .int v => .ok (some v)
  | .bad => .error .typeError

/-- what numpy's generator is running on: the stream of an integer seed at a position (32-bit words), or
the `tag`-th seeding from operating-system entropy (a stream nobody can name) -/
inductive GenSt where
  | seeded (s : Nat) (pos : Nat)
  | entropy (tag : Nat) (pos : Nat)
deriving DecidableEq, Repr

def GenSt.adv : GenSt → Nat → GenSt
  | .seeded s p, k => .seeded s (p + k)
  | .entropy t p, k => .entropy t (p + k)

/-- numpy's `_legacy_seeding(seed)`: `None` → entropy; `0 ≤ seed < hi` (`hi = 2**32`) → that stream from the
start; otherwise `ValueError` before the state is touched -/
def npSeed (hi tag : Nat) : Option Int → Except RErr GenSt
  | none => .ok (.entropy tag 0)
  | some v => if 0 ≤ v ∧ v < (hi : Int) then .ok (.seeded v.toNat 0) else .error .valueError

/-- a `RandomStateService`: `_seed` and the state of `random` -/
structure RSS where
  seed : Option Int
  gen : GenSt
deriving DecidableEq, Repr

/-- `RandomStateService(seed)` -/
def mk (hi tag : Nat) (a : SeedArg) : Except RErr RSS :=
  match intCast a with
  | .error e => .error e
  | .ok sd =>
    match npSeed hi tag sd with
    | .error e => .error e
    | .ok g => .ok ⟨sd, g⟩

/-- `rss.reseed(seed)`: what it raises (if anything) and the object afterwards.
`assignAfter = true`: `seed = int_cast(…); self.random.seed(seed); self._seed = seed` (the label is written once
numpy has accepted the seed); `false`: `self._seed = int_cast(…); self.random.seed(self._seed)` (the pinned
order: when numpy refuses, the label has already been overwritten). -/
def reseed (assignAfter : Bool) (hi tag : Nat) (r : RSS) (a : SeedArg) : Except RErr Unit × RSS :=
  match intCast a with
  | .error e => (.error e, r)
  | .ok sd =>
    match npSeed hi tag sd with
    | .error e => (.error e, if assignAfter then r else { r with seed := sd })
    | .ok g => (.ok (), ⟨sd, g⟩)

/-- `rss.random.<draw>` consuming `k` words -/
def draw (r : RSS) (k : Nat) : RSS := { r with gen := r.gen.adv k }

inductive ROp where
  | reseed (a : SeedArg)
  | draw (k : Nat)
deriving DecidableEq, Repr

/-- one step of a history; `tag` numbers the steps (identity of an entropy seeding) -/
def step (assignAfter : Bool) (hi tag : Nat) (r : RSS) : ROp → Except RErr Unit × RSS
  | .reseed a => reseed assignAfter hi tag r a
  | .draw k => (.ok (), draw r k)

/-- a history on ONE service: the outcome of every step (with the label read after it) and the object left -/
def runOps (assignAfter : Bool) (hi : Nat) : Nat → RSS → List ROp → List (Except RErr Unit × Option Int) × RSS
  | _, r, [] => ([], r)
  | tag, r, op :: ops =>
    let (o, r') := step assignAfter hi tag r op
    let (os, r'') := runOps assignAfter hi (tag + 1) r' ops
    ((o, r'.seed) :: os, r'')

/-- the label describes the generator: an integer label `v` is a valid seed and the generator runs on the
stream of `v`; the label `None` goes with an entropy-seeded generator -/
def Consistent (hi : Nat) (r : RSS) : Prop :=
  match r.seed with
  | some v => 0 ≤ v ∧ v < (hi : Int) ∧ ∃ pos, r.gen = .seeded v.toNat pos
  | none => ∃ t p, r.gen = .entropy t p

/-- the service as the stream (seed, position) of `Model/Rng.lean`, when it has a nameable one -/
def RSS.toStream (r : RSS) : Option Stream :=
  match r.gen with
  | .seeded s p => some ⟨s, p⟩
  | .entropy _ _ => none


/-- history operations including the public `random` setter -/
inductive ROpX where
  | op (o : ROp)
  /-- `rss.random = obj`: `none` = not a `numpy.random.RandomState` (`TypeError`), `some g` = a RandomState in state `g` -/
  | setRandom (g : Option GenSt)
deriving DecidableEq, Repr

/-- the `random` property setter: type check, then the generator cell is replaced; the label is not touched -/
def setRandom (r : RSS) : Option GenSt → Except RErr Unit × RSS
  | none => (.error .typeError, r)
  | some g => (.ok (), { r with gen := g })

def stepX (assignAfter : Bool) (hi tag : Nat) (r : RSS) : ROpX → Except RErr Unit × RSS
  | .op o => step assignAfter hi tag r o
  | .setRandom g => setRandom r g

/-- a history that may also assign generators through the setter -/
def runOpsX (assignAfter : Bool) (hi : Nat) : Nat → RSS → List ROpX → List (Except RErr Unit × Option Int) × RSS
  | _, r, [] => ([], r)
  | tag, r, op :: ops =>
    let (o, r') := stepX assignAfter hi tag r op
    let (os, r'') := runOpsX assignAfter hi (tag + 1) r' ops
    ((o, r'.seed) :: os, r'')

/-! ## `Analysis.generate_signal_events` / `generate_pseudo_data`: the per-dataset merge

Background events for every dataset first, then the signal generator on the same service; what it returns
(`ds_sig_events_dict`, in the order the dict was filled) is injected per dataset:
`n_events_list[ds] += len(sig)`, `events_list[ds] = sig` if nothing is there yet else `events_list[ds].append(sig)`. -/

section pseudo
variable {V D M : Type}

inductive PErr where
  /-- a list argument of the wrong length -/
  | valueError
  /-- `n_events_list[ds_idx]` for a dataset index the analysis does not have -/
  | indexError
deriving DecidableEq, Repr

/-- `l[i] = f l[i]` (no-op outside the list; the callers test the index first) -/
def updAt {α : Type} (f : α → α) : Nat → List α → List α
  | _, [] => []
  | 0, x :: xs => f x :: xs
  | i + 1, x :: xs => x :: updAt f i xs

/-- what is in `events_list[ds]` after injecting `sig` -/
def mergeEv (sig : List D) : Option (List D) → Option (List D)
  | none => some sig
  | some b => some (b ++ sig)

/-- one item of `ds_sig_events_dict.items()`; `none` = `IndexError` -/
def injectOne (st : List Nat × List (Option (List D))) (e : Nat × List D) : Option (List Nat × List (Option (List D))) :=
  if e.1 < st.1.length ∧ e.1 < st.2.length then
    some (updAt (· + e.2.length) e.1 st.1, updAt (mergeEv e.2) e.1 st.2)
  else none

/-- the injection loop -/
def injectAll : List Nat × List (Option (List D)) → List (Nat × List D) → Option (List Nat × List (Option (List D)))
  | st, [] => some st
  | st, e :: es =>
    match injectOne st e with
    | none => none
    | some st' => injectAll st' es

structure PseudoOut (D : Type) where
  nSig : Nat
  nEv : List Nat
  ev : List (Option (List D))
  /-- words of the service consumed -/
  words : Nat

/-- `Analysis.generate_signal_events(rss, mean_n_sig, sig_kwargs, n_events_list, events_list)`.
`sigGen mean view` = the signal generator: (n_sig, items of the dict it returns) and the words it read. -/
def generateSignalEvents (nds : Nat) (isZero : M → Bool)
    (sigGen : M → (Nat → V) → (Nat × List (Nat × List D)) × Nat) (mean : M)
    (nEv0 : Option (List Nat)) (ev0 : Option (List (Option (List D)))) (view : Nat → V) : Except PErr (PseudoOut D) :=
  let nEv := match nEv0 with
    | none => List.replicate nds 0
    | some l => l
  let ev := match ev0 with
    | none => List.replicate nds none
    | some l => l
  if nEv.length ≠ nds ∨ ev.length ≠ nds then .error .valueError
  else if isZero mean then .ok ⟨0, nEv, ev, 0⟩
  else
    let r := sigGen mean view
    match injectAll (nEv, ev) r.1.2 with
    | none => .error .indexError
    | some st => .ok ⟨r.1.1, st.1, st.2, r.2⟩

/-- `Analysis.generate_pseudo_data(rss, mean_n_sig=…)`: `bkgGen view` = the background generator:
(n_events_list, events_list) and the words it read; the signal generator continues on the same service -/
def generatePseudoData (nds : Nat) (isZero : M → Bool) (bkgGen : (Nat → V) → (List Nat × List (List D)) × Nat)
    (sigGen : M → (Nat → V) → (Nat × List (Nat × List D)) × Nat) (mean : M) (view : Nat → V) :
    Except PErr (PseudoOut D) :=
  let b := bkgGen view
  match generateSignalEvents nds isZero sigGen mean (some b.1.1) (some (b.1.2.map some)) (fun i => view (b.2 + i)) with
  | .error e => .error e
  | .ok o => .ok { o with words := b.2 + o.words }

/-- all signal events the dict holds for dataset `i`, in injection order -/
def sigFor (i : Nat) : List (Nat × List D) → List D
  | [] => []
  | e :: es => if e.1 = i then e.2 ++ sigFor i es else sigFor i es

end pseudo

end RngR7
