/-
C20, round 7: which `Config` methods can run on a configuration of a given *shape*.

Every method of `Config` starts with a chain of item reads `self[k1]..[kn]`; the only exceptions the
configuration code itself can raise are the `KeyError` / `TypeError` of that navigation.  The functions
below decide, from the content of one configuration alone, whether the navigation of a method succeeds.
They are executed by the driver (`mok` request) and compared with the real methods; `Props/C20.lean`
proves that they are exactly the success condition of `cmethod`, that `Config()` inherits them from
`_BASECONFIG`, and evaluates them on the shape extracted from the current source
(`Generated/C20.lean`).

`setDefault` / `setNewDict`: `d.setdefault(k, {})` and `d[k] = {}` — writes that allocate a new container
(were reference-oracle only).
-/
import SkyllhModel.Model.Coll

namespace Coll

/-- `self[p1]..[pn]` ends at a container: an item write `self[p1]..[pn][k] = v` cannot raise -/
def writeOk (c : Cfg) (path : List Nat) : Bool :=
  match navigate c path with
  | .ok _ => true
  | .error _ => false

/-- `self[p1]..[pn][k]` can be read -/
def readOk (c : Cfg) (path : List Nat) (k : Nat) : Bool :=
  match cget c path k with
  | .ok _ => true
  | .error _ => false

/-- the navigation outcome of the six groups of methods: tracing setters, `set_ncpu`, `set_internal_units`,
`is_tracing_enabled`, the working-directory methods, `to_internal_time_unit` -/
structure MethodsOk where
  tracingW : Bool
  ncpuW : Bool
  unitsW : Bool
  tracingR : Bool
  wdR : Bool
  timeR : Bool
deriving DecidableEq, Repr

def methodsOk (c : Cfg) (K : Keys) : MethodsOk :=
  { tracingW := writeOk c [K.debugging],
    ncpuW := writeOk c [K.multiproc],
    unitsW := writeOk c [K.units, K.internal],
    tracingR := readOk c [K.debugging] K.enableTracing,
    wdR := readOk c [K.project] K.workingDirectory,
    timeR := readOk c [K.units, K.internal] K.time }

def MethodsOk.all (m : MethodsOk) : Bool :=
  m.tracingW && m.ncpuW && m.unitsW && m.tracingR && m.wdR && m.timeR

/-- every method of `Config` finds its keys in `c` -/
def methodPathsOk (c : Cfg) (K : Keys) : Bool := (methodsOk c K).all

/-! ### writes that allocate: `obj[k] = {}` and `obj.setdefault(k, {})` -/

/-- the effect on `c` of `obj[k] = <new empty dict with identity n>` where `obj` has identity `l`:
every path under which `obj` is reachable gets the *same* new dict below it -/
def Cfg.writeNewDictLoc (l k n : Nat) (c : Cfg) : Cfg :=
  (c.dicts.filter (fun d => d.2 = l)).foldl
    (fun acc d =>
      let q := d.1 ++ [k]
      { dicts := acc.dicts.filter (fun e => !(q.isPrefixOf e.1)) ++ [(q, n)],
        leaves := acc.leaves.filter (fun x => !(q.isPrefixOf x.1)) }) c

/-- `cfgs[j][p1]..[pn][k] = {}` — the new dict gets the identity `w.next` -/
def csetNewDict (w : CWorld) (j : Nat) (path : List Nat) (k : Nat) : CWorld × Except CErr CRes :=
  match w.cfgs[j]? with
  | none => (w, .error .badTarget)
  | some c => match navigate c path with
      | .error e => (w, .error e)
      | .ok l => ({ w with next := w.next + 1, cfgs := w.cfgs.map (Cfg.writeNewDictLoc l k w.next) }, .ok .unit)

/-- `cfgs[j][p1]..[pn].setdefault(k, {})`: the stored value when the key is present (nothing changes),
otherwise the write of a new dict (result: that container) -/
def csetDefaultDict (w : CWorld) (j : Nat) (path : List Nat) (k : Nat) : CWorld × Except CErr CRes :=
  match w.cfgs[j]? with
  | none => (w, .error .badTarget)
  | some c => match navigate c path with
      | .error e => (w, .error e)
      | .ok _ => match c.lookup (path ++ [k]) with
          | some r => (w, .ok r)
          | none => match csetNewDict w j path k with
              | (w', .ok _) => (w', .ok .cont)
              | (w', .error e) => (w', .error e)

/-- `cfgs[j][p1]..[pn].setdefault(k, v)` with a scalar default -/
def csetDefaultVal (w : CWorld) (j : Nat) (path : List Nat) (k v : Nat) : CWorld × Except CErr CRes :=
  match w.cfgs[j]? with
  | none => (w, .error .badTarget)
  | some c => match navigate c path with
      | .error e => (w, .error e)
      | .ok _ => match c.lookup (path ++ [k]) with
          | some r => (w, .ok r)
          | none => match cstep w (.set j path k v) with
              | (w', .ok _) => (w', .ok (.val v))
              | (w', .error e) => (w', .error e)

/-- specification of the allocating write: only configuration `j` changes -/
def cspecSetNewDict (w : CWorld) (j : Nat) (path : List Nat) (k : Nat) : CWorld × Except CErr CRes :=
  match w.cfgs[j]? with
  | none => (w, .error .badTarget)
  | some c => match navigate c path with
      | .error e => (w, .error e)
      | .ok l => ({ w with next := w.next + 1, cfgs := w.cfgs.set j (c.writeNewDictLoc l k w.next) }, .ok .unit)

end Coll

/-! ### `NamedObjectCollection.copy()` as a call of its own (it was modelled only inside `+`) -/

namespace Coll
section copyop
variable {N : Type} [DecidableEq N] [TyRel]

/-- `c_j.copy()` with the copy function as a parameter: `copy.copy(self)`, then a new list and a new
dictionary with the same content; the new collection is appended to the world -/
def copyStepWith (cp : Nat → C N → C N) (w : World N) (j : Nat) : World N × Except Err (Out N) :=
  match w.colls[j]? with
  | none => (w, .error .badTarget)
  | some c => ({ next := w.next + 2, colls := w.colls ++ [cp w.next c] }, .ok (.coll w.colls.length))

def copyStep (w : World N) (j : Nat) : World N × Except Err (Out N) := copyStepWith copyOf w j

/-- a call of the extended alphabet: a method call or `copy()` -/
inductive OpX (N : Type) | op (o : Op N) | copy (j : Nat)

def stepX (w : World N) : OpX N → World N × Except Err (Out N)
  | .op o => step w o
  | .copy j => copyStep w j

def runX (w : World N) : List (OpX N) → World N
  | [] => w
  | o :: os => runX (stepX w o).1 os

end copyop
end Coll
