/-
  Round-7 additions to the model of property C15 (core Lean only, scalar-polymorphic).

  * `Linear1DGridManifoldInterpolationMethod` over an `IrregularParameterGrid` (the only
    interpolation method that accepts one — through a `ParameterGridSet`; the parabola method needs
    `delta`): the cells have different widths, the rounding raises outside `[first, last)`.
    The call is mirrored in the order of the code: lower rounding (may raise) → cache test →
    upper rounding (may raise) → manifold function twice → broadcast → line parameters → store.
  * `ParameterGridSet.add_extra_lower_and_upper_bin`: a plain loop over the grids, so a raising grid
    leaves the grids before it extended (the post-state is part of the answer).
  * The `searchsorted` sides, the index shift of the irregular rounding and the gradient factor of
    the parabola as *parameters* (`irrLowerP …`), instantiated in `Props/C15.lean` with the values
    read from the current source (`Gen.C15.*`).
-/
import SkyllhModel.Model.Grid
import SkyllhModel.Model.GridObj

namespace Grid

/-! ### linear interpolation over an irregular grid -/

section irrlin
variable {F : Type} [Add F] [Sub F] [Mul F] [Div F] [LT F] [DecidableLT F] [LE F] [DecidableLE F] [BEq F]

/-- the line parameters from the per-source grid values `x0`, `x1` (the part of the "not cached"
branch after the two roundings; the same operations as in `linCompute`) -/
def linLine (Mf : Option Int → List F → List F) (ns : List Nat) (sid : Option Int) (x0 x1 : List F) :
    Option (LinCache F) :=
  let M0 := Mf sid x0
  let M1 := Mf sid x1
  match broadcast x0 ns, broadcast x1 ns with
  | some v0, some v1 =>
    if M0.length = ns.sum ∧ M1.length = ns.sum then
      let m := List.zipWith (· / ·) (List.zipWith (· - ·) M1 M0) (List.zipWith (· - ·) v1 v0)
      let b := List.zipWith (· - ·) M0 (List.zipWith (· * ·) m v0)
      some ⟨sid, x0, m, b⟩
    else none
  | _, _ => none

/-- "not cached" branch over an irregular grid: `none` = IndexError of a rounding (a value below the
first or at/above the last grid point), ValueError of the broadcast, or a manifold function of the
wrong length -/
def linComputeIrr (g : List F) (Mf : Option Int → List F → List F) (ns : List Nat) (sid : Option Int)
    (xs : List F) : Option (LinCache F) :=
  match irrLowerArr g xs with
  | none => none
  | some x0 =>
    match irrUpperArr g xs with
    | none => none
    | some x1 => linLine Mf ns sid x0 x1

/-- one `__call__` on an object whose grid is irregular; post-state also when the call raises -/
def linCallIrr (g : List F) (Mf : Option Int → List F → List F) (ns : List Nat)
    (cache : Option (LinCache F)) (sid : Option Int) (xs : List F) :
    Option (LinCache F) × Option (List F × List F) :=
  match irrLowerArr g xs with
  | none => (cache, none)
  | some x0 =>
    let fresh : Option (LinCache F) × Option (List F × List F) :=
      match linComputeIrr g Mf ns sid xs with
      | some c' => (some c', linEval c' ns xs)
      | none => (cache, none)
    match cache with
    | some c =>
      if sid.isSome = true ∧ c.sid = sid ∧ (c.x0 == x0) = true then (cache, linEval c ns xs) else fresh
    | none => fresh

/-- what a fresh object returns -/
def linSpecIrr (g : List F) (Mf : Option Int → List F → List F) (ns : List Nat) (sid : Option Int)
    (xs : List F) : Option (List F × List F) :=
  (linComputeIrr g Mf ns sid xs).bind fun c => linEval c ns xs

/-- a history of calls on one object -/
def linRunIrr (g : List F) (Mf : Option Int → List F → List F) (ns : List Nat) :
    Option (LinCache F) → List (Option Int × List F) → List (Option (List F × List F))
  | _, [] => []
  | cache, (sid, xs) :: rest =>
    let r := linCallIrr g Mf ns cache sid xs
    r.2 :: linRunIrr g Mf ns r.1 rest

end irrlin

/-! ### `ParameterGridSet.add_extra_lower_and_upper_bin` -/

section gridset
variable {F : Type} [Add F] [Sub F] [Mul F] [Div F] [LT F] [DecidableLT F] [RoundOps F]

/-- `for paramgrid in self.objects: paramgrid.add_extra_lower_and_upper_bin()`: the grids after the
loop and whether it ran to the end (`false` = one grid raised: the grids before it stay extended, it
and the grids after it are unchanged) -/
def gridSetExtra : List (PGObj F) → List (PGObj F) × Bool
  | [] => ([], true)
  | o :: rest =>
    match o.step .extra with
    | none => (o :: rest, false)
    | some o' => let r := gridSetExtra rest; (o' :: r.1, r.2)

/-- the same loop over irregular grids -/
def irrSetExtra : List (List F) → List (List F) × Bool
  | [] => ([], true)
  | g :: rest =>
    match irrAddExtra g with
    | none => (g :: rest, false)
    | some g' => let r := irrSetExtra rest; (g' :: r.1, r.2)

end gridset

/-! ### the literals of the irregular rounding and of the parabola gradient as parameters -/

section params
variable {F : Type} [LE F] [DecidableLE F] [LT F] [DecidableLT F]

/-- `np.searchsorted(a, v, side=…)` with the side as a parameter (`true` = `'right'`) -/
def ssSide (right : Bool) (a : List F) (v : F) : Nat := if right then ssRight a v else ssLeft a v

/-- `round_to_lower_grid_point` of the irregular grid: `grid[searchsorted(grid, v, side) - shift]`,
IndexError (`none`) for a negative index -/
def irrLowerP (right : Bool) (shift : Nat) (g : List F) (v : F) : Option F :=
  let c := ssSide right g v
  if c < shift then none else g[c - shift]?

/-- `round_to_upper_grid_point`: `grid[searchsorted(grid, v, side)]` -/
def irrUpperP (right : Bool) (g : List F) (v : F) : Option F := g[ssSide right g v]?

/-- `round_to_nearest_grid_point`: `grid[searchsorted((grid[1:]+grid[:-1])/den, v, side)]` -/
def irrNearestP [Add F] [Div F] [OfNat F 2] (right : Bool) (g : List F) (v : F) : Option F :=
  g[ssSide right (irrMids g) v]?

end params

/-- the gradient of the parabola method with the literal factor of `2.*a*(x-x1) + b` as a parameter -/
def parGradP {F : Type} [Add F] [Sub F] [Mul F] [Div F] [OfNat F 1] [OfNat F 2]
    (c : F) (x1 dx M0 M1 M2 x : F) : F := c * parA dx M0 M1 M2 * (x - x1) + parB dx M0 M2

end Grid
