/-
  Model of the caches a likelihood evaluation passes through — property C06.

  Object graph that is modelled (real classes, see harness/cache_fixtures.py):

      TrialDataManager                         data, source hypothesis, `_trial_data_state_id`
      SignalMultiDimGridPDFSet                 one MultiDimGridPDF per grid point + interpolation method
        Linear1D/Parabola1DGridManifoldInterpolationMethod._cache   (state id, key x0 | x1, coefficients)
        MultiDimGridPDF._cache_pd / _cache_tdm_trial_data_state_id  (per grid point, per-source blocks,
                                                                     NaN = "not yet computed")
      BackgroundMultiDimGridPDF                _cache_pd (one block)
      SigOverBkgPDFRatio                       ratio / gradient from the two
      ZeroSigH0SingleDatasetTCLLHRatio         `_cache_nsgrad_i` (read by `calculate_ns_grad2`)

  The *pure* evaluator (`evalPure`) is a function of (data, source, query) only.  The *cached*
  evaluator (`evalC`) threads the real cache fields.  `Variant` holds the three facts about the
  source code the transparency proof depends on; they are read from the current source on every run
  (Generated/C06.lean) and passed to the driver in every request.

  The scalar `F` is arbitrary (Float in the driver; any type in the theorems — the proofs are about
  the cache logic, never about arithmetic laws).
-/

namespace Cache

/-- facts about the code that decide whether the caches are sound -/
structure Variant where
  /-- `TrialDataManager.initialize_trial` / `change_shg_mgr` advance `_trial_data_state_id`
      unconditionally (pinned commit: only the `calculate_*_data_fields` calls that have fields do) -/
  bumpAlways : Bool
  /-- `Linear1DGridManifoldInterpolationMethod._is_cached` compares the grid point exactly
      (pinned commit: `numpy.isclose`) -/
  exactHit : Bool
  /-- `ZeroSigH0SingleDatasetTCLLHRatio.initialize_for_new_trial` clears `_cache_nsgrad_i` -/
  resetNsgrad : Bool
  /-- `ZeroSigH0SingleDatasetTCLLHRatio.evaluate` clears `_cache_nsgrad_i` before it does anything that
      can raise (review round: without it a failing evaluate leaves the previous point's gradients) -/
  clearNsgOnEval : Bool
deriving Repr, DecidableEq

/-- configuration of the object graph (the classes named in the property's quantifier) -/
structure Cfg where
  srcFields : Bool      -- TDM has source data fields
  preFields : Bool      -- TDM has pre-event-selection static data fields
  staticFields : Bool   -- TDM has static data fields
  cachePd : Bool        -- SignalMultiDimGridPDF(cache_pd_values=...) of the grid PDFs of the signal PDF set
  parabola : Bool       -- Parabola1D… (else Linear1D…) interpolation
  cacheBkg : Bool       -- BackgroundMultiDimGridPDF(cache_pd_values=...)
deriving Repr, DecidableEq

/-- number of `_trial_data_state_id += 1` executed by `initialize_trial` -/
def bumpInit (v : Variant) (c : Cfg) : Nat :=
  (if v.bumpAlways then 1 else 0) + (if c.preFields then 1 else 0) + (if c.staticFields then 1 else 0)

/-- … by `change_shg_mgr` -/
def bumpSrc (v : Variant) (c : Cfg) : Nat :=
  (if v.bumpAlways then 1 else 0) + (if c.srcFields then 1 else 0)

variable {D S F : Type}

/-- what the leaves compute: the per-event PDF values — pure functions of data and source -/
structure World (D S F : Type) where
  /-- signal PDF of grid point `g` for the events of source `k` (norm factor included) -/
  man : D → S → Nat → F → List F
  /-- background PDF value of every selected event -/
  bkg : D → S → List F
  /-- `ParameterGrid`: neighbour grid points of a grid point, grid spacing -/
  up : F → F
  lo : F → F
  dx : F
  /-- the PDF set has a PDF for this grid point (`PDFSet.get_pdf` raises `KeyError` otherwise) -/
  inGrid : F → Bool
  /-- event selection: the positions (in the array of selected events) of the events that are paired
      with source `k` — `evt_idxs[src_idxs == k]` of `TrialDataManager.src_evt_idxs`; without an event
      selection method every source is paired with every event: `List.range n` -/
  sel : D → S → Nat → List Nat

/-- a parameter point: value per source and its grid key per source
    (Linear: `round_to_lower_grid_point x`, Parabola: `round_to_nearest_grid_point x`) -/
structure Query (F : Type) where
  /-- value of the global fit parameter ns (not used by the PDF ratio; `nsgrad_i` depends on it) -/
  ns : F
  x : List F
  key : List F

/-- interpolation coefficients of one source: Linear `(m, b, [])`, Parabola `(M1, a, b)` -/
abbrev Coef (F : Type) := List F × List F × List F

/-- `MultiDimGridPDF._cache_tdm_trial_data_state_id`, `_cache_pd`
    (`blocks k = none`: the entries of source `k` are still NaN) -/
structure PdCache (F : Type) where
  sid : Option Int
  blocks : Nat → Option (List F)

def PdCache.empty : PdCache F := ⟨none, fun _ => none⟩

/-- `…GridManifoldInterpolationMethod._cache` once filled -/
structure InterpCache (F : Type) where
  sid : Int
  keys : List F
  coefs : List (Coef F)

structure St (D S F : Type) where
  data : D
  src : S
  sid : Int
  interp : Option (InterpCache F)
  pdc : F → PdCache F
  bkgc : PdCache F
  /-- which evaluation `_cache_nsgrad_i` stems from -/
  nsg : Option (D × S × Query F)

/-- freshly built object graph after its first `initialize_trial` -/
def fresh (d : D) (s : S) : St D S F :=
  { data := d, src := s, sid := -1, interp := none, pdc := fun _ => PdCache.empty,
    bkgc := PdCache.empty, nsg := none }

/-! ### numerics (element-wise, in the order of the Python expressions) -/

section numerics
variable [Add F] [Sub F] [Mul F] [Div F] [LT F] [DecidableLT F] [LE F] [DecidableLE F] [OfScientific F]

/-- `numpy.isclose(a, b, rtol, atol)` for finite values: `|a - b| <= atol + rtol * |b|` -/
def isclose (rtol atol a b : F) : Bool :=
  let ab (z : F) : F := if z < (0.0 : F) then (0.0 : F) - z else z
  decide (ab (a - b) ≤ atol + rtol * ab b)

/-- `m = (M1 - M0) / (x1 - x0); b = M0 - m*x0` -/
def linCoef (x0 x1 : F) (M0 M1 : List F) : Coef F :=
  let m := List.zipWith (fun a b => (b - a) / (x1 - x0)) M0 M1
  let b := List.zipWith (fun a mi => a - mi * x0) M0 m
  (m, b, [])

/-- `values = m*x + b`, gradient `m` -/
def linVal (x : F) (c : Coef F) : List F × List F :=
  (List.zipWith (fun mi bi => mi * x + bi) c.1 c.2.1, c.1)

/-- `a = 0.5*(M0 - 2.*M1 + M2) / dx**2; b = 0.5*(M2 - M0) / dx` -/
def parCoef (dx : F) (M0 M1 M2 : List F) : Coef F :=
  let s := List.zipWith (fun a b => a - (2.0 : F) * b) M0 M1
  let a := List.zipWith (fun sb c => (0.5 : F) * (sb + c) / (dx * dx)) s M2
  let b := List.zipWith (fun m0 m2 => (0.5 : F) * (m2 - m0) / dx) M0 M2
  (M1, a, b)

/-- `values = a*(x-x1)**2 + b*(x-x1) + M1; grads = 2.*a*(x-x1) + b` -/
def parVal (x x1 : F) (c : Coef F) : List F × List F :=
  let d := x - x1
  let ab := List.zipWith (fun a b => (a, b)) c.2.1 c.2.2
  (List.zipWith (fun (p : F × F) m1 => p.1 * (d * d) + p.2 * d + m1) ab c.1,
   ab.map (fun p => (2.0 : F) * p.1 * d + p.2))

def linCoefs : List F → List F → List (List F) → List (List F) → List (Coef F)
  | x0 :: x0s, x1 :: x1s, M0 :: M0s, M1 :: M1s => linCoef x0 x1 M0 M1 :: linCoefs x0s x1s M0s M1s
  | _, _, _, _ => []

def parCoefs (dx : F) : List (List F) → List (List F) → List (List F) → List (Coef F)
  | M0 :: M0s, M1 :: M1s, M2 :: M2s => parCoef dx M0 M1 M2 :: parCoefs dx M0s M1s M2s
  | _, _, _ => []

def linVals : List F → List (Coef F) → List (List F × List F)
  | x :: xs, c :: cs => linVal x c :: linVals xs cs
  | _, _ => []

def parVals : List F → List F → List (Coef F) → List (List F × List F)
  | x :: xs, k :: ks, c :: cs => parVal x k c :: parVals xs ks cs
  | _, _, _ => []

/-- `SigOverBkgPDFRatio.get_ratio`: `sig/bkg` where `bkg > 0`, else `zero_bkg_ratio_value = 1` -/
def ratioOf (sig bkg : List F) : List F :=
  List.zipWith (fun s b => if (0.0 : F) < b then s / b else (1.0 : F)) sig bkg

/-- `SigOverBkgPDFRatio.get_gradient` (signal-only dependence): `grad/bkg` where `bkg > 0`, else 0 -/
def gradOf (g bkg : List F) : List F :=
  List.zipWith (fun s b => if (0.0 : F) < b then s / b else (0.0 : F)) g bkg

end numerics

/-! ### pure evaluator -/

/-- manifold values of sources `k, k+1, …` at grid points `gs` -/
def manAll (W : World D S F) (d : D) (s : S) : Nat → List F → List (List F)
  | _, [] => []
  | k, g :: gs => W.man d s k g :: manAll W d s (k + 1) gs

section pure
variable [Add F] [Sub F] [Mul F] [Div F] [LT F] [DecidableLT F] [OfScientific F]

/-- the interpolation coefficients as a function of (data, source, grid key) -/
def coefPure (W : World D S F) (parabola : Bool) (d : D) (s : S) (key : List F) : List (Coef F) :=
  if parabola then
    parCoefs W.dx (manAll W d s 0 (key.map W.lo)) (manAll W d s 0 key) (manAll W d s 0 (key.map W.up))
  else
    linCoefs key (key.map W.up) (manAll W d s 0 key) (manAll W d s 0 (key.map W.up))

/-- `np.take(b, idx)` for in-range indices (an out-of-range index would raise; it is dropped here and
shows up as a shape mismatch) -/
def pick (b : List F) (idx : List Nat) : List F := idx.filterMap (fun i => b[i]?)

/-- `tdm.broadcast_selected_events_arrays_to_values_arrays`: the background values of the events
paired with each of the `K` sources -/
def bkgBlocks (W : World D S F) (d : D) (s : S) (K : Nat) (b : List F) : List (List F) :=
  (List.range K).map (fun k => pick b (W.sel d s k))

/-- ratio and gradient blocks (one per source) from coefficients and the per-source background
values -/
def finish (parabola : Bool) (q : Query F) (coefs : List (Coef F)) (bks : List (List F)) :
    List (List F) × List (List F) :=
  let sig := if parabola then parVals q.x q.key coefs else linVals q.x coefs
  (List.zipWith (fun vg bk => ratioOf vg.1 bk) sig bks, List.zipWith (fun vg bk => gradOf vg.2 bk) sig bks)

/-- **specification**: the PDF-ratio values and gradients of a trial — no state at all -/
def evalPure (W : World D S F) (parabola : Bool) (d : D) (s : S) (q : Query F) :
    List (List F) × List (List F) :=
  finish parabola q (coefPure W parabola d s q.key) (bkgBlocks W d s q.key.length (W.bkg d s))

end pure

/-! ### cached evaluator -/

/-- `MultiDimGridPDF.get_pd_with_eventdata` for the block of source `k`; `val` is what the spline
    evaluation would return.  Result: value, new cache, "had to be computed". -/
def pdGet (cachePd : Bool) (sid : Int) (val : List F) (c : PdCache F) (k : Nat) :
    List F × PdCache F × Bool :=
  if !cachePd then (val, c, true)
  else if c.sid = some sid then
    match c.blocks k with
    | some v => (v, c, false)
    | none => (val, ⟨some sid, fun j => if j = k then some val else c.blocks j⟩, true)
  else
    -- `_initialize_cache`, then `_store_pd_values_to_cache` allocates an all-NaN array
    (val, ⟨some sid, fun j => if j = k then some val else none⟩, true)

section cached
variable [BEq F]

/-- `SignalMultiDimGridPDFSet._evaluate_pdfs`: loop over the sources, one PDF object per grid point -/
def evalPdfs (W : World D S F) (cachePd : Bool) (d : D) (s : S) (sid : Int) :
    (F → PdCache F) → Nat → List F → List (List F) × (F → PdCache F) × Nat
  | pdc, _, [] => ([], pdc, 0)
  | pdc, k, g :: gs =>
    let r := pdGet cachePd sid (W.man d s k g) (pdc g) k
    let pdc' := fun g' => if g' == g then r.2.1 else pdc g'
    let rest := evalPdfs W cachePd d s sid pdc' (k + 1) gs
    (r.1 :: rest.1, rest.2.1, rest.2.2 + (if r.2.2 then 1 else 0))

/-- element-wise `np.all(hit(cache.x0, x0))` -/
def all2 (hit : F → F → Bool) : List F → List F → Bool
  | [], [] => true
  | a :: as, b :: bs => hit a b && all2 hit as bs
  | _, _ => false

variable [Add F] [Sub F] [Mul F] [Div F] [LT F] [DecidableLT F] [OfScientific F]

/-- what one `evaluate` call shows: values + the cache behaviour observed from outside -/
structure Out (F : Type) where
  ratio : List (List F)
  grad : List (List F)
  interpHit : Bool
  pdMiss : Nat
  bkgMiss : Bool

/-- the miss branch of the interpolation method's `__call__` -/
def interpMiss (W : World D S F) (cfg : Cfg) (st : St D S F) (q : Query F) :
    List (Coef F) × Option (InterpCache F) × (F → PdCache F) × Nat :=
  if cfg.parabola then
    let r0 := evalPdfs W cfg.cachePd st.data st.src st.sid st.pdc 0 (q.key.map W.lo)
    let r1 := evalPdfs W cfg.cachePd st.data st.src st.sid r0.2.1 0 q.key
    let r2 := evalPdfs W cfg.cachePd st.data st.src st.sid r1.2.1 0 (q.key.map W.up)
    let cs := parCoefs W.dx r0.1 r1.1 r2.1
    (cs, some ⟨st.sid, q.key, cs⟩, r2.2.1, r0.2.2 + r1.2.2 + r2.2.2)
  else
    let r0 := evalPdfs W cfg.cachePd st.data st.src st.sid st.pdc 0 q.key
    let r1 := evalPdfs W cfg.cachePd st.data st.src st.sid r0.2.1 0 (q.key.map W.up)
    let cs := linCoefs q.key (q.key.map W.up) r0.1 r1.1
    (cs, some ⟨st.sid, q.key, cs⟩, r1.2.1, r0.2.2 + r1.2.2)

/-- interpolation method `__call__`: coefficients, new caches, hit?, number of PDF evaluations -/
def interpCall (W : World D S F) (hit : F → F → Bool) (cfg : Cfg) (st : St D S F) (q : Query F) :
    List (Coef F) × Option (InterpCache F) × (F → PdCache F) × Bool × Nat :=
  match st.interp with
  | some ic =>
    if ic.sid = st.sid ∧ all2 hit ic.keys q.key = true then (ic.coefs, st.interp, st.pdc, true, 0)
    else let r := interpMiss W cfg st q; (r.1, r.2.1, r.2.2.1, false, r.2.2.2)
  | none => let r := interpMiss W cfg st q; (r.1, r.2.1, r.2.2.1, false, r.2.2.2)

/-- `LLHRatio.evaluate` as far as the PDF ratio is concerned -/
def evalC (W : World D S F) (hit : F → F → Bool) (cfg : Cfg) (st : St D S F) (q : Query F) :
    St D S F × Out F :=
  let r := interpCall W hit cfg st q
  let b := pdGet cfg.cacheBkg st.sid (W.bkg st.data st.src) st.bkgc 0
  let o := finish cfg.parabola q r.1 (bkgBlocks W st.data st.src q.key.length b.1)
  ({ st with interp := r.2.1, pdc := r.2.2.1, bkgc := b.2.1, nsg := some (st.data, st.src, q) },
   ⟨o.1, o.2, r.2.2.2.1, r.2.2.2.2, b.2.2⟩)

/-- grid points whose PDFs an evaluation looks up when the interpolation cache misses -/
def needed (W : World D S F) (parabola : Bool) (key : List F) : List F :=
  if parabola then key.map W.lo ++ key ++ key.map W.up else key ++ key.map W.up

/-- all of them exist (otherwise `KeyError` in `_get_pdf_for_interpol_param_values`) -/
def queryOk (W : World D S F) (parabola : Bool) (q : Query F) : Bool :=
  (needed W parabola q.key).all W.inGrid

/-- `evaluate` with its error path.  A point outside the grid raises before any value is returned;
what the Python objects keep of the failed call: the per-event ns-gradients of the *previous*
evaluation, unless `evaluate` clears them first (`clearNsgOnEval`).  (The PDFs of the in-grid
neighbours that were evaluated before the `KeyError` may already sit in their pd caches; they are
valid entries and only change later hit/miss counts, which is not modelled.) -/
def evalE (W : World D S F) (v : Variant) (hit : F → F → Bool) (cfg : Cfg) (st : St D S F)
    (q : Query F) : St D S F × Option (Out F) :=
  if queryOk W cfg.parabola q then
    let r := evalC W hit cfg st q
    (r.1, some r.2)
  else ({ st with nsg := if v.clearNsgOnEval then none else st.nsg }, none)

/-- specification of `evaluate` including the error: `none` = the evaluation raises -/
def evalPureE (W : World D S F) (parabola : Bool) (d : D) (s : S) (q : Query F) :
    Option (List (List F) × List (List F)) :=
  if queryOk W parabola q then some (evalPure W parabola d s q) else none

/-! ### histories -/

inductive Op (D S F : Type) where
  | initTrial (d : D)         -- tdm.initialize_trial(events of d) + llhratio.initialize_for_new_trial()
  | changeSource (s : S)      -- llhratio.change_shg_mgr(s), then (as documented) a new trial on the same data
  | evaluate (q : Query F)
  | grad2                     -- calculate_ns_grad2 without a preceding evaluate

inductive Res (D S F : Type) where
  | unit
  | out (o : Out F)
  | evalError                               -- the evaluation raised (point outside the grid)
  | grad2Of (d : D) (s : S) (q : Query F)   -- "second derivative of the evaluation (d, s, q)", q carries ns
  | error                                   -- RuntimeError: evaluate has to be called first

def initTrial (v : Variant) (cfg : Cfg) (st : St D S F) (d : D) : St D S F :=
  { st with data := d, sid := st.sid + (bumpInit v cfg : Nat),
            nsg := if v.resetNsgrad then none else st.nsg }

def changeSource (v : Variant) (cfg : Cfg) (st : St D S F) (s : S) : St D S F :=
  initTrial v cfg { st with src := s, sid := st.sid + (bumpSrc v cfg : Nat) } st.data

def step (W : World D S F) (v : Variant) (hit : F → F → Bool) (cfg : Cfg) (st : St D S F) :
    Op D S F → St D S F × Res D S F
  | .initTrial d => (initTrial v cfg st d, .unit)
  | .changeSource s => (changeSource v cfg st s, .unit)
  | .evaluate q => let r := evalE W v hit cfg st q
                   (r.1, match r.2 with | some o => .out o | none => .evalError)
  | .grad2 => (st, match st.nsg with | some (d, s, q) => .grad2Of d s q | none => .error)

def run (W : World D S F) (v : Variant) (hit : F → F → Bool) (cfg : Cfg) :
    St D S F → List (Op D S F) → St D S F × List (Res D S F)
  | st, [] => (st, [])
  | st, op :: ops =>
    let r := step W v hit cfg st op
    let rest := run W v hit cfg r.1 ops
    (rest.1, r.2 :: rest.2)

/-- the state after a history (results dropped) -/
def runSt (W : World D S F) (v : Variant) (hit : F → F → Bool) (cfg : Cfg) (st : St D S F)
    (ops : List (Op D S F)) : St D S F := (run W v hit cfg st ops).1

/-- specification of "current data" / "current source": set by the last initTrial / changeSource -/
def lastData (d0 : D) : List (Op D S F) → D
  | [] => d0
  | .initTrial d :: ops => lastData d ops
  | _ :: ops => lastData d0 ops

def lastSrc (s0 : S) : List (Op D S F) → S
  | [] => s0
  | .changeSource s :: ops => lastSrc s ops
  | _ :: ops => lastSrc s0 ops

/-- what an operation shows of the PDF-ratio values: `some none` = the evaluation raised -/
def Res.vals : Res D S F → Option (Option (List (List F) × List (List F)))
  | .out o => some (some (o.ratio, o.grad))
  | .evalError => some none
  | _ => none

/-- **specification of a whole history**: every evaluate answers with the stateless evaluator on the
data / source set by the last initTrial / changeSource before it -/
def pureTrace (W : World D S F) (parabola : Bool) :
    D → S → List (Op D S F) → List (Option (Option (List (List F) × List (List F))))
  | _, _, [] => []
  | _, s, .initTrial d :: ops => none :: pureTrace W parabola d s ops
  | d, _, .changeSource s :: ops => none :: pureTrace W parabola d s ops
  | d, s, .evaluate q :: ops => some (evalPureE W parabola d s q) :: pureTrace W parabola d s ops
  | d, s, .grad2 :: ops => none :: pureTrace W parabola d s ops

/-- specification of `_cache_nsgrad_i`: the last evaluation of the current trial (`clear`: a failed
evaluation forgets, else it leaves the previous one) -/
def lastEval (W : World D S F) (parabola clear : Bool) :
    Option (Query F) → List (Op D S F) → Option (Query F)
  | r, [] => r
  | _, .initTrial _ :: t => lastEval W parabola clear none t
  | _, .changeSource _ :: t => lastEval W parabola clear none t
  | r, .evaluate q :: t =>
    lastEval W parabola clear (if queryOk W parabola q then some q else if clear then none else r) t
  | r, .grad2 :: t => lastEval W parabola clear r t

end cached

/-! ### `DataField` that depends on global fit parameters (`_global_fitparam_value_list`)

The values live in the events array of the trial (`tdm.events[name]`); they are recomputed when the
field is not (yet) in the events array or a remembered fit parameter value differs.  `reset` is the
fourth fact read from the source: `initialize_trial` makes the fields forget the remembered values. -/

structure FieldSt (D S P V : Type) where
  data : D
  src : S
  inEvents : Bool        -- `self._name in tdm.events`
  vals : Option V        -- `tdm.events[self._name]`
  key : Option P         -- `_global_fitparam_value_list` (`none`: `[None, …]`)

inductive FieldOp (D S P : Type) where
  | initNew (d : D)          -- initialize_trial with a new events array
  | initSame                 -- initialize_trial with the same events array once more (e.g. unblinding again)
  | changeSource (s : S)     -- change_shg_mgr + initialize_trial on the same events array
  | compute (p : P)          -- calculate_global_fitparam_data_fields + get_data

def fieldFresh {D S P V : Type} (d : D) (s : S) : FieldSt D S P V := ⟨d, s, false, none, none⟩

def fieldCalc {D S P V : Type} [DecidableEq P] (f : D → S → P → V) (st : FieldSt D S P V) (p : P) :
    FieldSt D S P V × V :=
  let re : FieldSt D S P V × V :=
    ({ st with inEvents := true, vals := some (f st.data st.src p), key := some p }, f st.data st.src p)
  match st.inEvents, st.vals, st.key with
  | true, some v, some p' => if p' = p then (st, v) else re
  | _, _, _ => re

def fieldStep {D S P V : Type} [DecidableEq P] (f : D → S → P → V) (reset : Bool)
    (st : FieldSt D S P V) : FieldOp D S P → FieldSt D S P V × Option V
  | .initNew d => ({ st with data := d, inEvents := false, vals := none,
                             key := if reset then none else st.key }, none)
  | .initSame => ({ st with key := if reset then none else st.key }, none)
  | .changeSource s => ({ st with src := s, key := if reset then none else st.key }, none)
  | .compute p => let r := fieldCalc f st p; (r.1, some r.2)

def fieldRun {D S P V : Type} [DecidableEq P] (f : D → S → P → V) (reset : Bool) :
    FieldSt D S P V → List (FieldOp D S P) → FieldSt D S P V × List (Option V)
  | st, [] => (st, [])
  | st, op :: ops =>
    let r := fieldStep f reset st op
    let rest := fieldRun f reset r.1 ops
    (rest.1, r.2 :: rest.2)

/-- the hit test of the Linear cache for a code variant, numpy's default tolerances -/
def linearHit [Sub F] [Add F] [Mul F] [LT F] [DecidableLT F] [LE F] [DecidableLE F] [OfScientific F]
    [BEq F] (v : Variant) (a b : F) : Bool :=
  if v.exactHit then a == b else isclose (1e-5 : F) (1e-8 : F) a b

/-- the hit test the code uses: Parabola compares exactly (`np.not_equal`), Linear according to the
code variant -/
def hitOf [Sub F] [Add F] [Mul F] [LT F] [DecidableLT F] [LE F] [DecidableLE F] [OfScientific F]
    [BEq F] (v : Variant) (cfg : Cfg) : F → F → Bool :=
  if cfg.parabola then (fun a b => a == b) else linearHit v

end Cache
