/-
  Model/Stat.lean — property C12: test statistic and p-value helpers.

  Mirrors, operation by operation,

    skyllh/core/test_statistic.py   WilksTestStatistic.__call__
                                    LLHRatioZeroNsTaylorWilksTestStatistic.__call__
    skyllh/core/llhratio.py         ZeroSigH0SingleDatasetTCLLHRatio.calculate_ns_grad2
                                    MultiDatasetTCLLHRatio.calculate_ns_grad2
    skyllh/core/utils/analysis.py   calculate_pval_from_trials, calculate_pval_from_trials_mixed (routing),
                                    polynomial_fit (everything after `np.polyfit`)

  plus the Python keyword-binding rules needed for the call-compatibility obligation
  (`llhratio.calculate_ns_grad2(...)` inside the zero-ns Taylor test statistic).

  Scalar-polymorphic, core Lean only: executed with `Float` in `Driver/C12.lean`, reasoned about with
  `ℝ` (and any linear order for the counting part) in `Props/C12.lean`.  Python exceptions are explicit
  (`Except`), divisions by a possibly vanishing quantity stay visible in the theorems as hypotheses.
-/
import SkyllhModel.Scalar

namespace Stat

/-! ## test statistic -/

section ts
variable {F : Type} [Mul F] [Div F] [Neg F] [LT F] [DecidableLT F]
  [OfNat F 0] [OfNat F 1] [OfNat F 2] [OfNat F 4]

/-- `ns == 0` for a non-NaN float: neither below nor above zero (`-0.0 == 0` is true in IEEE). -/
def isZero (x : F) : Bool := !(decide (x < 0)) && !(decide (0 < x))

/-- `np.sign(x)` for a non-NaN float -/
def npSign (x : F) : F := if x < 0 then -1 else if 0 < x then 1 else 0

/-- `sgn_ns = np.where(ns == 0, 1., np.sign(ns))` -/
def sgnNs (ns : F) : F := if isZero ns then 1 else npSign ns

/-- `WilksTestStatistic.__call__`: `TS = 2 * sgn_ns * log_lambda` -/
def ts (ns ll : F) : F := 2 * sgnNs ns * ll

/-- `-2 * nsgrad**2 / (4*nsgrad2)` (Python precedence: `((-2) * nsgrad**2) / (4*nsgrad2)`), the quotient
itself; only meaningful for `b ≠ 0` -/
def tsApex (a b : F) : F := ((-2) * (a * a)) / (4 * b)

/-- the `ns == 0` branch of the Taylor variant as coded:

    if nsgrad == 0 and nsgrad2 == 0: return 0.      # flat up to second order: apex value 0
    TS = -2 * nsgrad**2 / (4*nsgrad2)

`none` stands for the non-finite float (`±inf`) numpy returns for `a ≠ 0`, `b == 0`; the division is
never totalised. -/
def tsApex? (a b : F) : Option F :=
  if isZero a && isZero b then some 0
  else if isZero b then none
  else some (tsApex a b)

/-- `LLHRatioZeroNsTaylorWilksTestStatistic.__call__` given `a = grads[ns_pidx]` and
`b = llhratio.calculate_ns_grad2(...)` -/
def tsTaylor (ns ll a b : F) : Option F :=
  if isZero ns then tsApex? a b else some (2 * npSign ns * ll)

end ts

/-! ## the call itself: looking `ns` up among the global fit parameters -/

inductive TsErr where
  | keyError        -- `pmm.get_gflp_idx(name=...)`: no floating parameter of that name
  | indexError      -- `fitparam_values[ns_pidx]`: the array is shorter than the parameter list
  deriving DecidableEq, Repr

/-- `pmm.get_gflp_idx(name)`: position of the (first) floating parameter called `name` -/
def gflpIdx (names : List String) (name : String) : Except TsErr Nat :=
  match names.findIdx? (· == name) with
  | some i => .ok i
  | none => .error .keyError

section tscall
variable {F : Type} [Mul F] [Div F] [Neg F] [LT F] [DecidableLT F]
  [OfNat F 0] [OfNat F 1] [OfNat F 2] [OfNat F 4]

/-- `WilksTestStatistic(ns_param_name=name).__call__(pmm, log_lambda, fitparam_values)` with the names of
the pmm's floating parameters -/
def tsCall (names : List String) (name : String) (fp : List F) (ll : F) : Except TsErr F :=
  match gflpIdx names name with
  | .error e => .error e
  | .ok i => match fp[i]? with
    | none => .error .indexError
    | some ns => .ok (ts ns ll)

/-- the Taylor class, given `a(i)`/`b` as functions of the index it hands to the LLH ratio -/
def tsTaylorCall (names : List String) (name : String) (fp : List F) (ll : F) (grads : List F) (b : F) :
    Except TsErr (Option F) :=
  match gflpIdx names name with
  | .error e => .error e
  | .ok i => match fp[i]?, grads[i]? with
    | some ns, some a => .ok (tsTaylor ns ll a b)
    | _, _ => .error .indexError

end tscall

/-! ## second derivative w.r.t. ns (what the Taylor variant asks the LLH ratio for) -/

section grad2
variable {F : Type} [Add F] [Sub F] [Mul F] [Div F] [Neg F]
  [OfNat F 0] [OfNat F 1] [Transc F]

/-- sum of a list (`np.sum`; numpy sums pairwise, hence a tolerance in the correspondence) -/
def sumF : List F → F
  | [] => 0
  | x :: xs => x + sumF xs

/-- `log_lambda` of `calculate_log_lambda_and_grads` when every event is in the numerically stable
regime (always the case at `ns = 0`): `sum(log1p(ns*Xi)) + (N - Nprime)*log1p(-ns/N)` -/
def llrStable (N nSel : Nat) (ns : F) (Xs : List F) : F :=
  sumF (Xs.map (fun X => Transc.log1p (ns * X)))
    + Transc.ofI ((N : Int) - (nSel : Int)) * Transc.log1p (-ns / Transc.ofN N)

/-- `nsgrad_i[m_stable] = Xi * (1 / (1 + alpha_i))` -/
def nsGradI (ns X : F) : F := X * (1 / (1 + ns * X))

/-- `grads[ns_pidx] = np.sum(nsgrad_i) - (N - Nprime) / (N - ns)` (stable regime) -/
def nsGrad (N nSel : Nat) (ns : F) (Xs : List F) : F :=
  sumF (Xs.map (nsGradI ns)) - Transc.ofI ((N : Int) - (nSel : Int)) / (Transc.ofN N - ns)

/-- `ZeroSigH0SingleDatasetTCLLHRatio.calculate_ns_grad2`:
`-np.sum(cache_nsgrad_i**2) - (N - Nprime)/(N - ns)**2` -/
def nsGrad2 (N nSel : Nat) (ns : F) (gs : List F) : F :=
  -(sumF (gs.map (fun g => g * g)))
    - Transc.ofI ((N : Int) - (nSel : Int)) / ((Transc.ofN N - ns) * (Transc.ofN N - ns))

/-- `MultiDatasetTCLLHRatio.calculate_ns_grad2`: `np.sum(nsgrad2j * f**2)` -/
def nsGrad2Multi (g2s fs : List F) : F :=
  sumF (List.zipWith (fun g f => g * (f * f)) g2s fs)

/-- the part of a `ZeroSigH0SingleDatasetTCLLHRatio` object that `calculate_ns_grad2` depends on:
`_cache_nsgrad_i`, filled by `evaluate`, cleared by `initialize_for_new_trial` -/
structure LlhSt (F : Type) where
  cache : Option (List F)

inductive LlhErr where
  | runtime      -- "The evaluate method needs to be called before the calculate_ns_grad2 method can be called!"
  deriving DecidableEq, Repr

/-- `__init__` / `initialize_for_new_trial` -/
def LlhSt.fresh : LlhSt F := ⟨none⟩

/-- `evaluate` at `ns` (stable regime): caches `nsgrad_i` -/
def LlhSt.evaluate (_st : LlhSt F) (ns : F) (Xs : List F) : LlhSt F := ⟨some (Xs.map (nsGradI ns))⟩

/-- `calculate_ns_grad2(ns, …)` on the object: uses whatever was cached last -/
def LlhSt.grad2 (st : LlhSt F) (N nSel : Nat) (ns : F) : Except LlhErr F :=
  match st.cache with
  | none => .error .runtime
  | some gs => .ok (nsGrad2 N nSel ns gs)

end grad2

section tshist
variable {F : Type} [Add F] [Sub F] [Mul F] [Div F] [Neg F] [LT F] [DecidableLT F]
  [OfNat F 0] [OfNat F 1] [OfNat F 2] [OfNat F 4] [Transc F]

/-- the `ns == 0` branch of the Taylor variant on an LLH-ratio *object* in an arbitrary earlier state:
the code first evaluates the LLH ratio at the fit parameters (refreshing the per-event cache), takes
`a = grads[ns_pidx]` from that evaluation and then asks for the second derivative.  Returns the new object
state too. -/
def tsTaylorOn (st : LlhSt F) (N nSel : Nat) (Xs : List F) : LlhSt F × Except LlhErr (Option F) :=
  let st' := st.evaluate 0 Xs
  let a := nsGrad N nSel 0 Xs
  match st'.grad2 N nSel 0 with
  | .ok b => (st', .ok (tsApex? a b))
  | .error e => (st', .error e)

end tshist

/-! ## `evaluate` as coded: both numerical regimes, several datasets, the ns-profile wrapper -/

section code
variable {F : Type} [Add F] [Sub F] [Mul F] [Div F] [Neg F] [LT F] [DecidableLT F]
  [OfNat F 0] [OfNat F 1] [OfScientific F] [Transc F]

/-- `m_stable = alpha_i > alpha` with `alpha = one_plus_alpha - 1`, `alpha_i = ns*Xi` -/
def isStable (opa ns X : F) : Bool := decide (opa - 1 < ns * X)

/-- `tildealpha_i = (alpha_i - alpha) / one_plus_alpha` -/
def tildeAlpha (opa ns X : F) : F := (ns * X - (opa - 1)) / opa

/-- `log_lambda_i`: `log1p(alpha_i)` for stable events,
`log1p(alpha) + tildealpha_i - 0.5*tildealpha_i**2` otherwise -/
def logLambdaICode (opa ns X : F) : F :=
  if isStable opa ns X then Transc.log1p (ns * X)
  else Transc.log1p (opa - 1) + tildeAlpha opa ns X - 0.5 * (tildeAlpha opa ns X * tildeAlpha opa ns X)

/-- `nsgrad_i`: `Xi * (1/(1 + alpha_i))` for stable events, `(1 - tildealpha_i) * Xi / one_plus_alpha`
otherwise -/
def nsGradICode (opa ns X : F) : F :=
  if isStable opa ns X then X * (1 / (1 + ns * X))
  else (1 - tildeAlpha opa ns X) * X / opa

/-- `log_lambda = np.sum(log_lambda_i) + (N - Nprime)*np.log1p(-ns/N)` -/
def llrCode (opa : F) (N nSel : Nat) (ns : F) (Xs : List F) : F :=
  sumF (Xs.map (logLambdaICode opa ns))
    + Transc.ofI ((N : Int) - (nSel : Int)) * Transc.log1p (-ns / Transc.ofN N)

/-- `grads[ns_pidx] = np.sum(nsgrad_i) - (N - Nprime)/(N - ns)` -/
def nsGradCode (opa : F) (N nSel : Nat) (ns : F) (Xs : List F) : F :=
  sumF (Xs.map (nsGradICode opa ns)) - Transc.ofI ((N : Int) - (nSel : Int)) / (Transc.ofN N - ns)

/-- `evaluate` on the object as coded: the cache receives `nsgrad_i` of whichever regime each event is in -/
def LlhSt.evaluateCode (_st : LlhSt F) (opa ns : F) (Xs : List F) : LlhSt F :=
  ⟨some (Xs.map (nsGradICode opa ns))⟩

/-- `calculate_ns_grad2` computes `N` as `n_selected_events + n_pure_bkg_events`: `N′ ≤ N` by construction -/
def LlhSt.grad2Code (st : LlhSt F) (nSel nPure : Nat) (ns : F) : Except LlhErr F :=
  st.grad2 (nSel + nPure) nSel ns

/-- one dataset of a multi-dataset ratio as the objects see it -/
structure DsIn (F : Type) where
  nSel : Nat
  nPure : Nat
  Xs : List F

inductive MultiErr where
  | noWeights      -- the weight-factor service has not calculated anything yet (`ns * None`: TypeError)
  | shape          -- number of weight factors ≠ number of LLH ratios (numpy cannot broadcast)
  | runtime        -- a child has no cached gradients (RuntimeError)
  | valueError     -- ns-profile: `ns_pidx != 0`
  | noLogL0        -- ns-profile: `_logL_0` is still `None` (no trial initialised): TypeError in `evaluate`
  deriving DecidableEq, Repr

/-- `MultiDatasetTCLLHRatio`: its children and what the dataset-signal-weight-factor service holds -/
structure MultiSt (F : Type) where
  kids : List (LlhSt F)
  fs : Option (List F)

def MultiSt.fresh (J : Nat) : MultiSt F := ⟨List.replicate J LlhSt.fresh, none⟩

/-- `initialize_for_new_trial`: every child drops its cache; the services keep their last weights -/
def MultiSt.newTrial (st : MultiSt F) : MultiSt F := ⟨st.kids.map (fun _ => LlhSt.fresh), st.fs⟩

/-- `evaluate`: the services are (re)calculated — `fs` are the factors for the given fit parameters — and
child `j` is evaluated at `ns*f_j` -/
def MultiSt.evaluate (st : MultiSt F) (opa ns : F) (fs : List F) (ds : List (DsIn F)) : MultiSt F :=
  ⟨List.zipWith (fun (kd : LlhSt F × DsIn F) f => kd.1.evaluateCode opa (ns * f) kd.2.Xs) (st.kids.zip ds) fs,
   some fs⟩

/-- value and ns-gradient of `evaluate` (sequential `+=` over the datasets) -/
def multiLlr (opa ns : F) (fs : List F) (ds : List (DsIn F)) : F :=
  (List.zipWith (fun (d : DsIn F) f => llrCode opa (d.nSel + d.nPure) d.nSel (ns * f) d.Xs) ds fs).foldl (· + ·) 0

def multiNsGrad (opa ns : F) (fs : List F) (ds : List (DsIn F)) : F :=
  (List.zipWith (fun (d : DsIn F) f => nsGradCode opa (d.nSel + d.nPure) d.nSel (ns * f) d.Xs * f) ds fs).foldl (· + ·) 0

/-- all children's second derivatives at `ns*f_j`, or the first error -/
def kidsGrad2 : List (LlhSt F) → List (DsIn F) → List F → F → Except MultiErr (List F)
  | k :: ks, d :: ds, f :: fs, ns =>
    match k.grad2Code d.nSel d.nPure (ns * f) with
    | .error _ => .error .runtime
    | .ok g => match kidsGrad2 ks ds fs ns with
      | .error e => .error e
      | .ok gs => .ok (g :: gs)
  | _, _, _, _ => .ok []

/-- `MultiDatasetTCLLHRatio.calculate_ns_grad2(ns, …)`: takes `f` from the service as it is, asks every
child (each answering from its own cache) and combines `np.sum(nsgrad2j * f**2)` -/
def MultiSt.grad2 (st : MultiSt F) (ns : F) (ds : List (DsIn F)) : Except MultiErr F :=
  match st.fs with
  | none => .error .noWeights
  | some fs =>
    if fs.length ≠ st.kids.length then .error .shape
    else match kidsGrad2 st.kids ds fs ns with
      | .error e => .error e
      | .ok g2s => .ok (nsGrad2Multi g2s fs)

/-- `NsProfileMultiDatasetTCLLHRatio`: the wrapped multi-dataset ratio and `_logL_0` -/
structure ProfSt (F : Type) where
  inner : MultiSt F
  logL0 : Option F

/-- `initialize_for_new_trial`: new trial of the wrapped ratio, then it is evaluated at `mean_n_sig_0`
(which also fills the caches with the values of `mean_n_sig_0`) -/
def ProfSt.newTrial (st : ProfSt F) (opa ns0 : F) (fs : List F) (ds : List (DsIn F)) : ProfSt F :=
  ⟨st.inner.newTrial.evaluate opa ns0 fs ds, some (multiLlr opa ns0 fs ds)⟩

def ProfSt.evaluate (st : ProfSt F) (opa ns : F) (fs : List F) (ds : List (DsIn F)) : ProfSt F :=
  ⟨st.inner.evaluate opa ns fs ds, st.logL0⟩

/-- `log_lambda = logL - self._logL_0` (`none`: `_logL_0` is still `None`, TypeError) -/
def ProfSt.llr (st : ProfSt F) (opa ns : F) (fs : List F) (ds : List (DsIn F)) : Option F :=
  match st.logL0 with
  | none => none
  | some l0 => some (multiLlr opa ns fs ds - l0)

/-- `calculate_ns_grad2`: `ValueError` unless `ns_pidx == 0`, else delegated -/
def ProfSt.grad2 (st : ProfSt F) (nsPidx : Nat) (ns : F) (ds : List (DsIn F)) : Except MultiErr F :=
  if nsPidx ≠ 0 then .error .valueError else st.inner.grad2 ns ds

end code

section tscode
variable {F : Type} [Add F] [Sub F] [Mul F] [Div F] [Neg F] [LT F] [DecidableLT F]
  [OfNat F 0] [OfNat F 1] [OfNat F 2] [OfNat F 4] [OfScientific F] [Transc F]

/-- the `ns == 0` branch of the Taylor variant on a single-dataset LLH-ratio object, with `evaluate` as
coded (both regimes) -/
def tsTaylorOnCode (st : LlhSt F) (opa : F) (nSel nPure : Nat) (Xs : List F) :
    LlhSt F × Except LlhErr (Option F) :=
  let st' := st.evaluateCode opa 0 Xs
  let a := nsGradCode opa (nSel + nPure) nSel 0 Xs
  match st'.grad2Code nSel nPure 0 with
  | .ok b => (st', .ok (tsApex? a b))
  | .error e => (st', .error e)

/-- the same on a multi-dataset LLH-ratio object -/
def tsTaylorOnMulti (st : MultiSt F) (opa : F) (fs : List F) (ds : List (DsIn F)) :
    MultiSt F × Except MultiErr (Option F) :=
  let st' := st.evaluate opa 0 fs ds
  let a := multiNsGrad opa 0 fs ds
  match st'.grad2 0 ds with
  | .ok b => (st', .ok (tsApex? a b))
  | .error e => (st', .error e)

/-- … and on an ns-profile object (`ns_pidx = 0`) -/
def tsTaylorOnProf (st : ProfSt F) (opa : F) (fs : List F) (ds : List (DsIn F)) :
    ProfSt F × Except MultiErr (Option F) :=
  -- `evaluate` of the wrapper runs the wrapped ratio first (caches and services are updated) and only then
  -- fails on `logL - None`: the post-state of the raising call is the evaluated one
  let st' := st.evaluate opa 0 fs ds
  if st.logL0.isNone then (st', .error .noLogL0) else
  let a := multiNsGrad opa 0 fs ds
  match st'.grad2 0 0 ds with
  | .ok b => (st', .ok (tsApex? a b))
  | .error e => (st', .error e)

end tscode

/-! ## p-values from trials -/

/-- the `comp_operator` string -/
inductive Cmp where
  | greater | greaterEqual | other
  deriving DecidableEq, Repr

inductive PvErr where
  | valueError        -- unknown comp_operator
  | zeroDivision      -- empty sample: `0 / 0` of Python ints
  deriving DecidableEq, Repr

section pval
variable {F : Type} [LT F] [DecidableLT F] [LE F] [DecidableLE F]

/-- `ts_vals[ts_vals > ts_threshold].size` -/
def countGt (tsv : List F) (thr : F) : Nat := tsv.countP (fun x => decide (thr < x))

/-- `ts_vals[ts_vals >= ts_threshold].size` -/
def countGe (tsv : List F) (thr : F) : Nat := tsv.countP (fun x => decide (thr ≤ x))

/-- number of trials exactly at the threshold (specification only) -/
def countEq (tsv : List F) (thr : F) : Nat :=
  tsv.countP (fun x => decide (thr ≤ x) && !(decide (thr < x)))

/-- numerator and denominator of `p` as Python computes them (ints), with the two exceptions -/
def pvalCounts (op : Cmp) (tsv : List F) (thr : F) : Except PvErr (Nat × Nat) :=
  match op with
  | .other => .error .valueError
  | .greater => if tsv.length = 0 then .error .zeroDivision else .ok (countGt tsv thr, tsv.length)
  | .greaterEqual => if tsv.length = 0 then .error .zeroDivision else .ok (countGe tsv thr, tsv.length)

variable [Sub F] [Mul F] [Div F] [OfNat F 1] [Transc F]

/-- `p = k / n` (true division of two ints) -/
def pOf (k n : Nat) : F := Transc.ofN k / Transc.ofN n

/-- `p_sigma = np.sqrt(p * (1 - p) / ts_vals.size)` -/
def pSigma (p : F) (n : Nat) : F := Transc.sqrt (p * (1 - p) / Transc.ofN n)

/-- `calculate_pval_from_trials(ts_vals, ts_threshold, comp_operator)` -/
def pval (op : Cmp) (tsv : List F) (thr : F) : Except PvErr (F × F) :=
  match pvalCounts op tsv thr with
  | .ok (k, n) => .ok (pOf k n, pSigma (pOf k n) n)
  | .error e => .error e

/-- where `calculate_pval_from_trials_mixed` sends the request -/
inductive Route (F : Type) where
  | trials (r : Except PvErr (F × F))
  | gammaFit (eta : F)

/-- `calculate_pval_from_trials_mixed(ts_vals, ts_threshold, switch_at_ts, eta, n_max, comp_operator)`:
`eta` defaults to `switch_at_ts`; below the switch the trials are counted directly. -/
def pvalMixed (op : Cmp) (tsv : List F) (thr switchAt : F) (eta : Option F) : Route F :=
  let eta' := match eta with | some e => e | none => switchAt
  if thr < switchAt then .trials (pval op tsv thr) else .gammaFit eta'

/-- `calculate_pval_from_gammafit_to_trials` with the fitted survival function `sf` abstract (iminuit +
scipy are not modelled): `ValueError` below the truncation point, else `alpha * sf(thr) / sf(eta)` with
`alpha` the fraction of trials above `eta`.  (`n_max` truncation of the sample happens before.) -/
def pGamma (sf : F → F) (tsv : List F) (thr eta : F) : Except PvErr F :=
  if thr < eta then .error .valueError
  else if tsv.length = 0 then .error .zeroDivision
  else .ok (pOf (countGt tsv eta) tsv.length / sf eta * sf thr)

/-- `ts_vals[:n_max]` -/
def truncSample (tsv : List F) (nMax : Nat) : List F := if nMax < tsv.length then tsv.take nMax else tsv

end pval

/-! ## polynomial inversion (`polynomial_fit` after `np.polyfit`) -/

inductive PolyErr where
  | valueError        -- degree not 1 or 2
  | indexError        -- fewer coefficients than the degree needs (cannot happen with np.polyfit)
  | notFinite         -- the code returns inf/NaN: division by a vanishing leading coefficient
  deriving DecidableEq, Repr

section poly
variable {F : Type} [Add F] [Sub F] [Mul F] [Div F] [Neg F] [LT F] [DecidableLT F]
  [OfNat F 0] [OfNat F 2] [OfNat F 4] [Transc F]

/-- `np.polyval(params, x)` (Horner, highest power first) -/
def polyEval (params : List F) (x : F) : F := params.foldl (fun acc c => acc * x + c) 0

/-- degree 1: `ns = (p_thr - b)/a` -/
def polyInvert1 (a b p : F) : F := (p - b) / a

/-- the discriminant `(b**2) - 4*a*(c - p_thr)` -/
def polyDisc (a b c p : F) : F := b * b - 4 * a * (c - p)

/-- degree 2: `ns = (-b + np.sqrt((b**2) - 4*a*(c - p_thr))) / (2*a)` -/
def polyInvert2 (a b c p : F) : F := (-b + Transc.sqrt (polyDisc a b c p)) / (2 * a)

/-- does `polynomial_fit` fall back to a straight line?
`deg == 2 and (params[0] > 0 or params[1]**2 - 4*params[0]*(params[2] - p_thr) < 0)`:
the fitted parabola opens upwards, or it never reaches `p_thr`. -/
def polySwitch (deg : Nat) (params : List F) (pthr : F) : Bool :=
  deg == 2 && (match params with
    | a :: b :: c :: _ => decide (0 < a) || decide (polyDisc a b c pthr < 0)
    | a :: _ => decide (0 < a)
    | [] => false)

/-- `x == 0` for a non-NaN float -/
def polyIsZero (x : F) : Bool := !(decide (x < 0)) && !(decide (0 < x))

/-- `polynomial_fit(ns, p, p_weight, deg, p_thr)` where `fit d` is the coefficient list `np.polyfit`
returns for degree `d` on the given sample (recorded, not modelled).  Result: the signal strength and
the degree that was finally used; `notFinite` when the code divides by a zero leading coefficient (it
then returns inf/NaN instead of a signal strength). -/
def polyFit (fit : Nat → List F) (deg : Nat) (pthr : F) : Except PolyErr (F × Nat) :=
  let params := fit deg
  let sw := polySwitch deg params pthr
  let deg' := if sw then 1 else deg
  let params' := if sw then fit 1 else params
  if deg' = 1 then
    match params' with
    | a :: b :: _ => if polyIsZero a then .error .notFinite else .ok (polyInvert1 a b pthr, 1)
    | _ => .error .indexError
  else if deg' = 2 then
    match params' with
    | a :: b :: c :: _ => if polyIsZero a then .error .notFinite else .ok (polyInvert2 a b c pthr, 2)
    | _ => .error .indexError
  else .error .valueError

/-- the policy of the pinned revision (switch on `params[0] > 0` only): kept to state what was wrong.
`notFinite` also stands for the NaN of `np.sqrt` of a negative discriminant. -/
def polyFitPinned (fit : Nat → List F) (deg : Nat) (pthr : F) : Except PolyErr (F × Nat) :=
  let params := fit deg
  let sw := deg == 2 && (match params with | a :: _ => decide (0 < a) | [] => false)
  let deg' := if sw then 1 else deg
  let params' := if sw then fit 1 else params
  if deg' = 1 then
    match params' with
    | a :: b :: _ => if polyIsZero a then .error .notFinite else .ok (polyInvert1 a b pthr, 1)
    | _ => .error .indexError
  else if deg' = 2 then
    match params' with
    | a :: b :: c :: _ =>
      if polyIsZero a then .error .notFinite
      else if polyDisc a b c pthr < 0 then .error .notFinite
      else .ok (polyInvert2 a b c pthr, 2)
    | _ => .error .indexError
  else .error .valueError

end poly

/-! ## Python call binding (keywords only matter here) -/

/-- what `ast` reads off a `def`: parameter names without `self`, the required ones, `**kwargs`? -/
structure Sig where
  params : List String
  required : List String
  kwargs : Bool
  deriving DecidableEq, Repr

inductive BindErr where
  | tooManyPositional
  | unexpectedKeyword (k : String)
  | multipleValues (k : String)
  | missing (ps : List String)
  deriving DecidableEq, Repr

/-- is keyword `k` a problem for a callee that already bound `posBound` positionally? -/
def kwProblem (s : Sig) (posBound : List String) (k : String) : Option BindErr :=
  if s.params.contains k then
    (if posBound.contains k then some (.multipleValues k) else none)
  else if s.kwargs then none else some (.unexpectedKeyword k)

/-- CPython's argument binding (`initialize_locals` in ceval.c) for a call with `nPos` positional
arguments and the keyword names `kws` (callee without `*args`, positional-only or keyword-only
parameters — true for every `def` concerned).  `TypeError` kinds in the order CPython detects them:
keywords in call order (unexpected / multiple values), then too many positional arguments, then missing
required parameters (listed in parameter order). -/
def pyBind (s : Sig) (nPos : Nat) (kws : List String) : Except BindErr Unit :=
  let posBound := s.params.take nPos
  match kws.findSome? (kwProblem s posBound) with
  | some e => .error e
  | none =>
    if s.params.length < nPos then .error .tooManyPositional
    else
      let miss := s.required.filter (fun r => !(posBound.contains r) && !(kws.contains r))
      if miss.isEmpty then .ok () else .error (.missing miss)

/-- keywords that reach the inner callee when an outer function with signature `outer` is called with
`kws`, consumes its own named parameters and forwards `fixed` explicitly plus its `**kwargs`
(`Analysis.calculate_test_statistic` → `TestStatistic.__call__`) -/
def forwardKws (outer : Sig) (fixed kws : List String) : List String :=
  fixed ++ kws.filter (fun k => !(outer.params.contains k))

/-- every implementation accepts the call -/
def allBind (impls : List (String × Sig)) (nPos : Nat) (kws : List String) : Bool :=
  impls.all (fun i => match pyBind i.2 nPos kws with | .ok _ => true | .error _ => false)

end Stat
