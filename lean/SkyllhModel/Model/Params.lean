/-
  Model of skyllh/core/parameters.py — classes `Parameter`, `ParameterSet` and
  `ParameterModelMapper` (property C04).

  * `Param`  : one `Parameter` object (name, initial, isfixed, valmin, valmax, value).
  * `PSet`   : `ParameterSet` *with the redundant caches the class keeps* (`_params`,
               `_params_fixed_mask`, the two name lists, the two name→index dictionaries and the
               fixed value cache) and the mutators as they are coded (index arithmetic, cache
               pushes, `dict` updates).
  * `PMM`    : `ParameterModelMapper`: model list (name, is-source flag), the global `PSet`, and the
               `(n_models × n_global_params)` alias matrix (`none` = not mapped).
  * `Spec`   : the deliberately trivial specification — every view computed from the bare list of
               parameters (+ alias table) only.

  Parameter values are only stored, compared with `<` and passed through, never computed, so the
  model is written against `[LT V] [DecidableLT V]` only: it runs on `Float` in the driver (bit
  patterns cross the protocol) and is reasoned about over any linear order in `Props/C04.lean`.
  Python exceptions are `Except Err`; the class of the exception is the error value.
  State-changing operations return the post-state *also when they raise* (`σ × Except Err Unit`).
-/

namespace Params

inductive Err | valueError | keyError | typeError | indexError
  deriving DecidableEq, Repr

def Err.toString : Err → String
  | .valueError => "ValueError" | .keyError => "KeyError"
  | .typeError => "TypeError" | .indexError => "IndexError"

/-! ### small numpy / dict helpers -/

/-- `xs[mask]` with a boolean mask of the same length (`IndexError` when the lengths differ). -/
def maskSel {α : Type} : List α → List Bool → Except Err (List α)
  | [], [] => .ok []
  | x :: xs, b :: bs =>
      match maskSel xs bs with
      | .ok r => .ok (if b then x :: r else r)
      | .error e => .error e
  | _, _ => .error .indexError

/-- numpy's rule as it is: an *empty* boolean mask is accepted on an array of any length (the result
is empty); every other length mismatch raises `IndexError`. -/
def maskSelNp {α : Type} (xs : List α) : List Bool → Except Err (List α)
  | [] => .ok []
  | b :: bs => maskSel xs (b :: bs)

/-- `np.argwhere(mask).flatten()` (indices start at `i`). -/
def whereTrue : List Bool → Nat → List Nat
  | [], _ => []
  | b :: bs, i => if b then i :: whereTrue bs (i + 1) else whereTrue bs (i + 1)

/-- `a & b` for two boolean arrays (same length in every call of the modelled code). -/
def andM (a b : List Bool) : List Bool := List.zipWith (fun x y => x && y) a b

/-- `d[k]` of a Python `dict` (association list, first match), `none` = `KeyError`. -/
def dget {β : Type} : List (String × β) → String → Option β
  | [], _ => none
  | (k', v) :: d, k => if k' = k then some v else dget d k

/-- `d[k] = v` of a Python `dict`: overwrite in place, or append. -/
def dset {β : Type} : List (String × β) → String → β → List (String × β)
  | [], k, v => [(k, v)]
  | (k', v') :: d, k, v => if k' = k then (k, v) :: d else (k', v') :: dset d k v

/-- position of the first occurrence of `n` (the index a Python `list.index` would give). -/
def idxOf? (n : String) : List String → Option Nat
  | [] => none
  | x :: xs => if x = n then some 0 else (idxOf? n xs).map (· + 1)

/-- the value a sequence of `rec[k][i] = v` assignments leaves under key `k` (the last one). -/
def lastLookup {β : Type} (k : String) : List (String × β) → Option β
  | [] => none
  | (k', v) :: d => match lastLookup k d with
      | some w => some w
      | none => if k' = k then some v else none

/-! ### Parameter -/

structure Param (V : Type) where
  name : String
  initial : V
  isfixed : Bool
  valmin : Option V
  valmax : Option V
  value : V
  deriving DecidableEq, Repr

section ops
variable {V : Type} [LT V] [DecidableLT V]

/-- Python `a != b` for non-NaN floats, expressed with `<` only. -/
def neV (a b : V) : Bool := decide (a < b) || decide (b < a)

/-- `(v < lo) or (v > hi)` -/
def outside (v lo hi : V) : Bool := decide (v < lo) || decide (hi < v)

/-- the `value` setter (`parameters.py:204-220`). -/
def Param.setValue (p : Param V) (v : V) : Except Err (Param V) :=
  if p.isfixed then
    if neV v p.initial then .error .valueError else .ok { p with value := v }
  else
    match p.valmin with
    | none => .error .typeError                       -- `v < None`
    | some lo =>
      if v < lo then .error .valueError else
      match p.valmax with
      | none => .error .typeError
      | some hi => if hi < v then .error .valueError else .ok { p with value := v }

/-- `Parameter.__init__` -/
def Param.create (name : String) (initial : V) (valmin valmax : Option V) (isfixed : Option Bool) :
    Except Err (Param V) :=
  let fx := match isfixed with
    | some b => b
    | none => !(valmin.isSome && valmax.isSome)
  Param.setValue { name := name, initial := initial, isfixed := fx, valmin := valmin,
                   valmax := valmax, value := initial } initial

/-- `Parameter.make_fixed(initial)` -/
def Param.makeFixed (p : Param V) : Option V → Param V
  | none => { p with isfixed := true, initial := p.value }
  | some ini =>
    let out := match p.valmin, p.valmax with
      | some lo, some hi => outside ini lo hi
      | _, _ => false
    if out then { p with isfixed := true, initial := ini, value := ini, valmin := none, valmax := none }
    else { p with isfixed := true, initial := ini, value := ini }

/-- `Parameter._get_floating_settings`: resolve `None` arguments and validate; changes nothing. -/
def Param.floatingSettings (p : Param V) (ini vmin vmax : Option V) : Except Err (V × V × V) :=
  let i := ini.getD p.value
  match vmin.or p.valmin with
  | none => .error .valueError
  | some lo =>
    match vmax.or p.valmax with
    | none => .error .valueError
    | some hi => if outside i lo hi = true then .error .valueError else .ok (i, lo, hi)

/-- the assignments at the end of `Parameter.make_floating` -/
def Param.applyFloating (p : Param V) (t : V × V × V) : Param V :=
  { p with isfixed := false, initial := t.1, valmin := some t.2.1, valmax := some t.2.2, value := t.1 }

/-- `Parameter.make_floating(initial, valmin, valmax)` -/
def Param.makeFloating (p : Param V) (ini vmin vmax : Option V) : Except Err (Param V) :=
  match p.floatingSettings ini vmin vmax with
  | .ok t => .ok (p.applyFloating t)
  | .error e => .error e

/-- probe: would `param.value = x` be accepted? -/
def Param.accepts (p : Param V) (x : V) : Bool :=
  match p.setValue x with
  | .ok _ => true
  | .error _ => false

/-- `Parameter.change_fixed_value(value)`: `ValueError` for a floating parameter, otherwise
`self.initial = value; self.value = value` (the value setter then sees `v == initial`). -/
def Param.changeFixedValue (p : Param V) (v : V) : Except Err (Param V) :=
  if !p.isfixed then .error .valueError else Param.setValue { p with initial := v } v

end ops

/-- value of one entry of a `make_params_fixed` request dictionary -/
inductive FixVal (V : Type)
  | bad                 -- not castable to float (`'abc'`): `float_cast` raises `TypeError`
  | cur                 -- Python `None`: fix at the current value
  | val (v : V)
  deriving DecidableEq, Repr

def FixVal.isCur {V : Type} : FixVal V → Bool
  | .cur => true
  | _ => false

/-- the float the value is cast to (`none` = `float_cast` raises); Python `None` stays `None` -/
def FixVal.toOption? {V : Type} : FixVal V → Option (Option V)
  | .bad => none
  | .cur => some none
  | .val v => some (some v)

def FixVal.ofOption {V : Type} : Option V → FixVal V
  | none => .cur
  | some v => .val v

/-- what the fix / float loop does to one parameter (`f` = the per-parameter action) -/
def applyF {V : Type} (f : Param V → Except Err (Option (Param V))) (p : Param V) : Param V :=
  match f p with
  | .ok (some p') => p'
  | _ => p

/-! ### ParameterSet -/

structure PSet (V : Type) where
  params : List (Param V)                 -- `_params`
  fixedMask : List Bool                   -- `_params_fixed_mask`
  fixedNames : List String                -- `_fixed_param_name_list`
  floatNames : List String                -- `_floating_param_name_list`
  fixedIdx : List (String × Nat)          -- `_fixed_param_name_to_idx`
  floatIdx : List (String × Nat)          -- `_floating_param_name_to_idx`
  fixedVals : List V                      -- `_fixed_param_values`
  deriving DecidableEq, Repr

namespace PSet
variable {V : Type}

def empty : PSet V := ⟨[], [], [], [], [], [], []⟩

/-- the cache reset at the top of `make_params_fixed` / `make_params_floating`
(`_params` and `_params_fixed_mask` are kept). -/
def clearCaches (s : PSet V) : PSet V :=
  { s with fixedNames := [], floatNames := [], fixedIdx := [], floatIdx := [], fixedVals := [] }

/-- `has_param` (by name) -/
def hasName (s : PSet V) (n : String) : Bool := s.floatNames.contains n || s.fixedNames.contains n

/-- the three statements executed for a fixed parameter at the back of the caches -/
def pushFixed (s : PSet V) (n : String) (v : V) : PSet V :=
  { s with fixedNames := s.fixedNames ++ [n],
           fixedVals := s.fixedVals ++ [v],
           fixedIdx := dset s.fixedIdx n ((s.fixedNames ++ [n]).length - 1) }

/-- the two statements executed for a floating parameter at the back of the caches -/
def pushFloat (s : PSet V) (n : String) : PSet V :=
  { s with floatNames := s.floatNames ++ [n],
           floatIdx := dset s.floatIdx n ((s.floatNames ++ [n]).length - 1) }

/-- `add_param(param, atfront)` (`parameters.py:946-1026`) -/
def addParam (s : PSet V) (p : Param V) (front : Bool) : Except Err (PSet V) :=
  if s.hasName p.name then .error .keyError else
  .ok (
    if front then
      let s1 := { s with params := p :: s.params, fixedMask := p.isfixed :: s.fixedMask }
      if p.isfixed then
        { s1 with fixedNames := p.name :: s.fixedNames,
                  fixedVals := p.value :: s.fixedVals,
                  fixedIdx := dset (s.fixedIdx.map (fun kv => (kv.1, kv.2 + 1))) p.name 0 }
      else
        { s1 with floatNames := p.name :: s.floatNames,
                  floatIdx := dset (s.floatIdx.map (fun kv => (kv.1, kv.2 + 1))) p.name 0 }
    else
      let s1 := { s with params := s.params ++ [p], fixedMask := s.fixedMask ++ [p.isfixed] }
      if p.isfixed then s1.pushFixed p.name p.value else s1.pushFloat p.name)

/-- The loop of `make_params_fixed` / `make_params_floating` (`for (pidx, param) in
enumerate(self._params)`): `f p = .ok (some p')` — `p` is named in the request and becomes `p'`
(written back at index `pidx`, mask bit set), `.ok none` — `p` is not named, `.error e` — the
statement raises *inside* the loop: the partially rebuilt state is what remains. -/
def rebuildLoop (f : Param V → Except Err (Option (Param V))) :
    List (Param V) → Nat → PSet V → PSet V × Except Err Unit
  | [], _, acc => (acc, .ok ())
  | p :: rest, pidx, acc =>
    match f p with
    | .error e => (acc, .error e)
    | .ok (some p') =>
      let a := { acc with params := acc.params.set pidx p',
                          fixedMask := acc.fixedMask.set pidx p'.isfixed }
      rebuildLoop f rest (pidx + 1)
        (if p'.isfixed then a.pushFixed p'.name p'.value else a.pushFloat p'.name)
    | .ok none =>
      rebuildLoop f rest (pidx + 1)
        (if p.isfixed then acc.pushFixed p.name p.value else acc.pushFloat p.name)

/-- the validation pass in front of the loop (added by the `fix:` commit): first error of `f`. -/
def validate (f : Param V → Except Err (Option (Param V))) : List (Param V) → Except Err Unit
  | [] => .ok ()
  | p :: rest => match f p with
    | .error e => .error e
    | .ok _ => validate f rest

/-- validated edit of all parameters = the code after the fix -/
def editAll (f : Param V → Except Err (Option (Param V))) (s : PSet V) : PSet V × Except Err Unit :=
  match validate f s.params with
  | .error e => (s, .error e)
  | .ok _ => rebuildLoop f s.params 0 s.clearCaches

/-- the code before the fix: caches wiped, then the loop validates while it goes -/
def editAllUnvalidated (f : Param V → Except Err (Option (Param V))) (s : PSet V) :
    PSet V × Except Err Unit :=
  rebuildLoop f s.params 0 s.clearCaches

section ops
variable [LT V] [DecidableLT V]

/-- per-parameter action of `make_params_fixed(req)` including the checks of the validation pass
(already fixed → `ValueError`, value not castable to float → `TypeError`). -/
def fixF (req : List (String × FixVal V)) (p : Param V) : Except Err (Option (Param V)) :=
  match dget req p.name with
  | none => .ok none
  | some x =>
    if p.isfixed then .error .valueError else
    match x with
    | .bad => .error .typeError
    | .cur => .ok (some (p.makeFixed none))
    | .val v => .ok (some (p.makeFixed (some v)))

/-- entry of the `make_params_floating` request dictionary: `None` ↦ `entry cur cur cur`, a scalar
`x` ↦ `entry x cur cur`, a sequence ↦ its first three items (`short`: fewer than three, `e[2]` raises
`IndexError` in `_parse_float_param_dict_entry`); an item may be not castable to float (`bad`). -/
inductive FloatEntry (V : Type)
  | short
  | entry (ini lo hi : FixVal V)
  deriving Repr

/-- per-parameter action of `make_params_floating(req)` with the checks of the validation pass in the
order of the code: already floating (`ValueError`), entry parse (`IndexError`),
`_get_floating_settings`: `None` bounds without a current bound (`ValueError`), `float_cast`
(`TypeError`), range check (`ValueError`). -/
def floatF (req : List (String × FloatEntry V)) (p : Param V) : Except Err (Option (Param V)) :=
  match dget req p.name with
  | none => .ok none
  | some e =>
    if !p.isfixed then .error .valueError else
    match e with
    | .short => .error .indexError
    | .entry ini lo hi =>
      if (lo.isCur && p.valmin.isNone) || (hi.isCur && p.valmax.isNone) then .error .valueError else
      match ini.toOption?, lo.toOption?, hi.toOption? with
      | some i, some l, some h =>
        (match p.makeFloating i l h with
          | .ok p' => .ok (some p')
          | .error e => .error e)
      | _, _, _ => .error .typeError

def makeParamsFixed (s : PSet V) (req : List (String × FixVal V)) : PSet V × Except Err Unit :=
  editAll (fixF req) s

def makeParamsFloating (s : PSet V) (req : List (String × FloatEntry V)) : PSet V × Except Err Unit :=
  editAll (floatF req) s

/-- `paramset.params[i].value = v` for the parameter called `n` (`KeyError` if there is none;
that part is the harness' convention). The caches are not touched by the real code. -/
def setValueAux (n : String) (v : V) : List (Param V) → Except Err (List (Param V))
  | [] => .error .keyError
  | p :: ps =>
    if p.name = n then
      match p.setValue v with
      | .ok p' => .ok (p' :: ps)
      | .error e => .error e
    else match setValueAux n v ps with
      | .ok ps' => .ok (p :: ps')
      | .error e => .error e

def setValue (s : PSet V) (n : String) (v : V) : PSet V × Except Err Unit :=
  match setValueAux n v s.params with
  | .ok ps' => ({ s with params := ps' }, .ok ())
  | .error e => (s, .error e)

/-- `paramset.params[i].change_fixed_value(v)` for the parameter called `n`: the Parameter object is
changed, **no cache of the set is touched** (the docstring of `update_fixed_param_value_cache` asks the
caller to call it afterwards). -/
def changeFixedAux (n : String) (v : V) : List (Param V) → Except Err (List (Param V))
  | [] => .error .keyError
  | p :: ps =>
    if p.name = n then
      match p.changeFixedValue v with
      | .ok p' => .ok (p' :: ps)
      | .error e => .error e
    else match changeFixedAux n v ps with
      | .ok ps' => .ok (p :: ps')
      | .error e => .error e

def changeFixedRaw (s : PSet V) (n : String) (v : V) : PSet V × Except Err Unit :=
  match changeFixedAux n v s.params with
  | .ok ps' => ({ s with params := ps' }, .ok ())
  | .error e => (s, .error e)

end ops

/-- `for i, x in enumerate(xs): cache[i] = x` (in place; `IndexError` when the cache is too short) -/
def overwrite : List V → List V → List V × Except Err Unit
  | cache, [] => (cache, .ok ())
  | [], _ :: _ => ([], .error .indexError)
  | _ :: cache, x :: xs => let r := overwrite cache xs; (x :: r.1, r.2)

/-- `update_fixed_param_value_cache()`: `for (i, param) in enumerate(self.fixed_params):
self._fixed_param_values[i] = param.value` with `fixed_params = _params[_params_fixed_mask]`. -/
def updateFixedValueCache (s : PSet V) : PSet V × Except Err Unit :=
  match maskSel s.params s.fixedMask with
  | .error e => (s, .error e)
  | .ok fps => let r := overwrite s.fixedVals (fps.map (·.value)); ({ s with fixedVals := r.1 }, r.2)

section ops
variable [LT V] [DecidableLT V]

/-- the documented protocol: change the fixed value, then refresh the cache -/
def changeFixedValue (s : PSet V) (n : String) (v : V) : PSet V × Except Err Unit :=
  match s.changeFixedRaw n v with
  | (s', .ok _) => s'.updateFixedValueCache
  | (s', .error e) => (s', .error e)

end ops

/-- `ParameterSet(params=…)`: add at the back one after the other -/
def addAll : PSet V → List (Param V) → Except Err (PSet V)
  | s, [] => .ok s
  | s, p :: ps => match s.addParam p false with
    | .ok s' => addAll s' ps
    | .error e => .error e

/-- the second loop of `ParameterSet.union`: add the parameters not yet present (by name) -/
def addMissing : PSet V → List (Param V) → Except Err (PSet V)
  | s, [] => .ok s
  | s, p :: ps =>
    if s.hasName p.name then addMissing s ps else
    match s.addParam p false with
    | .ok s' => addMissing s' ps
    | .error e => .error e

/-- `ParameterSet.union(a, b)` -/
def union (a b : PSet V) : Except Err (PSet V) :=
  match addAll empty a.params with
  | .ok u => addMissing u b.params
  | .error e => .error e

/-- the loop `for paramset_i in paramsets[1:]` of `ParameterSet.union` -/
def addMissingAll : PSet V → List (PSet V) → Except Err (PSet V)
  | u, [] => .ok u
  | u, b :: bs => match addMissing u b.params with
    | .ok u' => addMissingAll u' bs
    | .error e => .error e

/-- `ParameterSet.union(*paramsets)` for any number of sets (`ValueError` for none) -/
def unionN : List (PSet V) → Except Err (PSet V)
  | [] => .error .valueError
  | a :: rest => match addAll empty a.params with
    | .ok u => addMissingAll u rest
    | .error e => .error e

/-! #### views (as the properties / methods compute them, from the caches) -/

structure Views (V : Type) where
  params : List (Param V)
  nameList : List String
  fixedNames : List String
  floatNames : List String
  fixedMask : List Bool
  floatMask : List Bool
  fixedIdxs : List Nat
  floatIdxs : List Nat
  nParams : Nat
  nFixed : Nat
  nFloating : Nat
  fixedVals : List V
  fixedParams : Except Err (List String)
  floatParams : Except Err (List String)
  floatInitials : Except Err (List V)
  floatBounds : Except Err (List (Option V × Option V))
  fixedPidx : List (Option Nat)
  floatPidx : List (Option Nat)
  has : List (Bool × Bool × Bool)
  paramsDict : List (String × V)
  floatDict : List (String × V)

def floatMask (s : PSet V) : List Bool := s.fixedMask.map (fun b => !b)

def exMap {α β : Type} (f : α → β) : Except Err α → Except Err β
  | .ok a => .ok (f a)
  | .error e => .error e

/-- all observable views; `q` = the names asked for, `g` = the supplied floating value vector. -/
def views (s : PSet V) (q : List String) (g : List V) : Views V :=
  { params := s.params
    nameList := s.fixedNames ++ s.floatNames
    fixedNames := s.fixedNames
    floatNames := s.floatNames
    fixedMask := s.fixedMask
    floatMask := s.floatMask
    fixedIdxs := whereTrue s.fixedMask 0
    floatIdxs := whereTrue s.floatMask 0
    nParams := s.params.length
    nFixed := s.fixedNames.length
    nFloating := s.floatNames.length
    fixedVals := s.fixedVals
    fixedParams := exMap (·.map (·.name)) (maskSel s.params s.fixedMask)
    floatParams := exMap (·.map (·.name)) (maskSel s.params s.floatMask)
    floatInitials := exMap (·.map (·.initial)) (maskSel s.params s.floatMask)
    floatBounds := exMap (·.map (fun p => (p.valmin, p.valmax))) (maskSel s.params s.floatMask)
    fixedPidx := q.map (dget s.fixedIdx)
    floatPidx := q.map (dget s.floatIdx)
    has := q.map (fun n => (s.fixedNames.contains n, s.floatNames.contains n, s.hasName n))
    paramsDict := s.floatNames.zip g ++ s.fixedNames.zip s.fixedVals
    floatDict := s.floatNames.zip g }

/-- for every `Parameter` object of the set and every probe value: is the assignment accepted? -/
def probe [LT V] [DecidableLT V] (s : PSet V) (xs : List V) : List (List Bool) :=
  s.params.map (fun p => xs.map p.accepts)

/-- `generate_random_floating_param_initials(rss)`: `vb[:, 0] + u * (vb[:, 1] - vb[:, 0])` with
`vb = floating_param_bounds` and `u = rss.random.uniform(size=n_floating)` (here: given). A bound that is
`None` would be `nan` in the bounds array: `none`. -/
def randomInitials [Add V] [Sub V] [Mul V] (s : PSet V) (u : List V) : Except Err (List (Option V)) :=
  match maskSel s.params s.floatMask with
  | .error e => .error e
  | .ok fps =>
    if fps.length ≠ u.length then .error .valueError else      -- numpy cannot broadcast the two columns
    .ok (List.zipWith (fun (p : Param V) x => match p.valmin, p.valmax with
      | some lo, some hi => some (lo + x * (hi - lo))
      | _, _ => none) fps u)

end PSet

/-! ### Specification: every view from the bare parameter list -/

namespace Spec
variable {V : Type}

def fixedOf (ps : List (Param V)) : List (Param V) := ps.filter (·.isfixed)
def floatOf (ps : List (Param V)) : List (Param V) := ps.filter (fun p => !p.isfixed)

def views (ps : List (Param V)) (q : List String) (g : List V) : PSet.Views V :=
  let fx := fixedOf ps
  let fl := floatOf ps
  let fxn := fx.map (·.name)
  let fln := fl.map (·.name)
  { params := ps
    nameList := fxn ++ fln
    fixedNames := fxn
    floatNames := fln
    fixedMask := ps.map (·.isfixed)
    floatMask := ps.map (fun p => !p.isfixed)
    fixedIdxs := whereTrue (ps.map (·.isfixed)) 0
    floatIdxs := whereTrue (ps.map (fun p => !p.isfixed)) 0
    nParams := ps.length
    nFixed := fx.length
    nFloating := fl.length
    fixedVals := fx.map (·.value)
    fixedParams := .ok fxn
    floatParams := .ok fln
    floatInitials := .ok (fl.map (·.initial))
    floatBounds := .ok (fl.map (fun p => (p.valmin, p.valmax)))
    fixedPidx := q.map (fun n => idxOf? n fxn)
    floatPidx := q.map (fun n => idxOf? n fln)
    has := q.map (fun n => (fxn.contains n, fln.contains n, (ps.map (·.name)).contains n))
    paramsDict := fln.zip g ++ fxn.zip (fx.map (·.value))
    floatDict := fln.zip g }

/-- The table cell of local name `a` for a model whose alias row is `row`: walk the parameters in
declaration order (`j` = global index, `k` = number of floating parameters passed so far = the index
of the next fit parameter, `g` = the not yet consumed floating values); the parameter mapped under
alias `a` gives its value — the next supplied value and `k+1` (fit-parameter index + 1) when it is
floating, its own (fixed) value and `-(j+1)` (global index) when it is fixed; `none` = not applicable. -/
def cell (a : String) : List (Param V) → List (Option String) → Nat → Nat → List V → Option (V × Int)
  | p :: ps, r :: row, j, k, g =>
    if p.isfixed then
      if r = some a then some (p.value, -((j : Int) + 1)) else cell a ps row (j + 1) k g
    else match g with
      | v :: g' => if r = some a then some (v, (k : Int) + 1) else cell a ps row (j + 1) (k + 1) g'
      | [] => none
  | _, _, _, _, _ => none

/-- specification of the setter: a fixed parameter accepts exactly its (fixed) value, a floating one
exactly the values inside its bounds -/
def accepts [LT V] [DecidableLT V] (p : Param V) (x : V) : Bool :=
  if p.isfixed then !(neV x p.value)
  else match p.valmin, p.valmax with
    | some lo, some hi => !(outside x lo hi)
    | _, _ => false

def probe [LT V] [DecidableLT V] (ps : List (Param V)) (xs : List V) : List (List Bool) :=
  ps.map (fun p => xs.map (accepts p))

end Spec

/-! ### ParameterModelMapper -/

structure PMM (V : Type) where
  models : List (String × Bool)                 -- (model name, isinstance(model, SourceModel))
  gps : PSet V                                  -- `_global_paramset`
  mpn : List (List (Option String))             -- `_model_param_names`, one row per model
  deriving DecidableEq, Repr

/-- the `model_param_names` argument of `map_param` -/
inductive AliasArg | none | one (a : String) | many (l : List String)
  deriving DecidableEq, Repr

namespace PMM
variable {V : Type}

def create (models : List (String × Bool)) : PMM V :=
  { models := models, gps := PSet.empty, mpn := models.map (fun _ => []) }

def nModels (s : PMM V) : Nat := s.models.length

/-- the duplicate-alias check loop of `map_param` over the mapped models in model order:
`names[midx]` may raise `IndexError`, an alias already present in the row raises `KeyError`. -/
def checkAliases (names : List String) : List (List (Option String)) → List Bool → Nat → Except Err Unit
  | row :: rows, b :: bs, midx =>
    if b then
      match names[midx]? with
      | none => .error .indexError
      | some a => if row.contains (some a) then .error .keyError else checkAliases names rows bs (midx + 1)
    else checkAliases names rows bs (midx + 1)
  | _, _, _ => .ok ()

/-- `np.where(mask, model_param_names, None)`: broadcasting needs length 1 or `n_models`. -/
def aliasColumn (names : List String) (mask : List Bool) : Except Err (List (Option String)) :=
  if names.length = mask.length then
    .ok (List.zipWith (fun (b : Bool) a => if b then some a else none) mask names)
  else match names with
    | [a] => .ok (mask.map (fun (b : Bool) => if b then some a else none))
    | _ => .error .valueError

/-- the part of `map_param` after the argument normalisation: duplicate-alias check, new alias column
(`np.where`), `add_param` on the global set, `hstack` of the column (order as in the code after the fix) -/
def mapParamCore (s : PMM V) (p : Param V) (names : List String) (mask : List Bool) :
    PMM V × Except Err Unit :=
  match checkAliases names s.mpn mask 0 with
  | .error e => (s, .error e)
  | .ok _ =>
    match aliasColumn names mask with
    | .error e => (s, .error e)
    | .ok col =>
      match s.gps.addParam p false with
      | .error e => (s, .error e)
      | .ok gps' =>
        ({ s with gps := gps', mpn := List.zipWith (fun row c => row ++ [c]) s.mpn col }, .ok ())

/-- `model_param_names` after the first lines of `map_param` -/
def aliasNames (s : PMM V) (p : Param V) : AliasArg → List String
  | .none => List.replicate s.nModels p.name
  | .one a => List.replicate s.nModels a
  | .many l => l

/-- `len(models) == 0` after `models = self._models if models is None` -/
def modelsEmpty (s : PMM V) : Option (List Nat) → Bool
  | none => s.nModels == 0
  | some ms => ms.isEmpty

/-- is model `i` one of the models the parameter is mapped to (`models = none`: all) -/
def isMapped : Option (List Nat) → Nat → Bool
  | none, _ => true
  | some ms, i => ms.contains i

def modelMask (s : PMM V) (models : Option (List Nat)) : List Bool :=
  (List.range s.nModels).map (isMapped models)

/-- `map_param(param, models, model_param_names)` (`parameters.py:1994-2069`, after the fix).
`models = none` is Python `None` (all models); otherwise a list of model positions, a position
`≥ n_models` stands for a model object the mapper does not know. -/
def mapParam (s : PMM V) (p : Param V) (models : Option (List Nat)) (al : AliasArg) :
    PMM V × Except Err Unit :=
  if s.modelsEmpty models then (s, .error .valueError)
  else mapParamCore s p (s.aliasNames p al) (s.modelMask models)

/-- `get_src_model_idxs(sources)` (after the fix): `sel = none` ↔ all sources; otherwise the list of
model positions of the requested source objects. -/
def isSourceAt (s : PMM V) (i : Nat) : Bool :=
  match s.models[i]? with
  | some m => m.2
  | none => false

def srcModelIdxs (s : PMM V) (sel : Option (List Nat)) : List Nat :=
  let all := (List.range s.nModels).filter s.isSourceAt
  match sel with
  | none => all
  | some l => all.filter (fun i => l.contains i)

/-- `get_model_idx_by_name` -/
def modelIdxByName (n : String) : List (String × Bool) → Nat → Except Err Nat
  | [], _ => .error .keyError
  | m :: ms, i => if m.1 = n then .ok i else modelIdxByName n ms (i + 1)

def zip3 {α β γ : Type} : List α → List β → List γ → List (α × β × γ)
  | a :: as, b :: bs, c :: cs => (a, b, c) :: zip3 as bs cs
  | _, _, _ => []

/-- `np.cumsum(mask) - 1` (`acc` = the sum so far) -/
def cumsumM1 : List Bool → Int → List Int
  | [], _ => []
  | b :: bs, acc => (acc + (if b then 1 else 0) - 1) :: cumsumM1 bs (acc + (if b then 1 else 0))

/-- The common part of `create_model_params_dict` and of the loop body of
`create_src_params_recarray` for one alias row: local names, values and the `gpidx` entry, floating
parameters first, then the fixed ones — all through boolean masks, as coded. Floating parameters are
referenced by `gflpidxs + 1` (`gflpidxs = np.cumsum(gflp_mask) - 1`, the fit-parameter index), fixed
ones by `-gpidxs - 1` (`gpidxs = np.arange(n_global_params)`). -/
def rowEntries (gps : PSet V) (row : List (Option String)) (g : List V) :
    Except Err (List (String × V × Int)) :=
  let m := row.map (·.isSome)
  let fl := gps.floatMask
  let fx := gps.fixedMask
  let gpidxs : List Int := (List.range gps.params.length).map (fun (i : Nat) => (i : Int))
  let gflpidxs : List Int := cumsumM1 fl 0
  match maskSelNp row (andM fl m), maskSelNp row (andM fx m),
        maskSelNp m fl, maskSelNp m fx,
        maskSelNp gflpidxs (andM fl m), maskSelNp gpidxs (andM fx m) with
  | .ok nFl, .ok nFx, .ok mFl, .ok mFx, .ok iFl, .ok iFx =>
    match maskSelNp g mFl, maskSelNp gps.fixedVals mFx with
    | .ok vFl, .ok vFx =>
      .ok (zip3 ((nFl ++ nFx).filterMap id) (vFl ++ vFx)
            (iFl.map (fun (i : Int) => i + 1) ++ iFx.map (fun (i : Int) => -i - 1)))
    | _, _ => .error .indexError
  | _, _, _, _, _, _ => .error .indexError

/-- `create_model_params_dict(gflp_values, model=midx)` -/
def modelParamsDict (s : PMM V) (g : List V) (midx : Nat) : Except Err (List (String × V)) :=
  match s.mpn[midx]? with
  | none => .error .indexError
  | some row => PSet.exMap (·.map (fun e => (e.1, e.2.1))) (rowEntries s.gps row g)

/-- field names of the record array: the local names used by source models
(`unique_source_param_names`; sorted by the harness on both sides) -/
def srcFieldNames (s : PMM V) : List String :=
  let rows := (s.mpn.zip s.models).filter (fun rm => rm.2.2) |>.map (·.1)
  (rows.flatten.filterMap id).eraseDups

/-- one row of `create_src_params_recarray`: the cell of every field name
(`none` = the NaN / gpidx 0 default was never overwritten) -/
def srcRow (s : PMM V) (g : List V) (fields : List String) (smidx : Nat) :
    Except Err (Nat × List (Option (V × Int))) :=
  match s.mpn[smidx]? with
  | none => .error .indexError
  | some row =>
    match rowEntries s.gps row g with
    | .error e => .error e
    | .ok es => .ok (smidx, fields.map (fun f => lastLookup f es))

def srcRows (s : PMM V) (g : List V) (fields : List String) : List Nat → Except Err (List (Nat × List (Option (V × Int))))
  | [] => .ok []
  | i :: is => match srcRow s g fields i, srcRows s g fields is with
    | .ok r, .ok rs => .ok (r :: rs)
    | .error e, _ => .error e
    | _, .error e => .error e

/-- `create_src_params_recarray(gflp_values, sources)` -/
def srcParamsRecarray (s : PMM V) (g : List V) (sel : Option (List Nat)) :
    Except Err (List String × List (Nat × List (Option (V × Int)))) :=
  if g.length ≠ s.gps.floatNames.length then .error .valueError else
  let fields := s.srcFieldNames
  match srcRows s g fields (s.srcModelIdxs sel) with
  | .ok rows => .ok (fields, rows)
  | .error e => .error e

/-! #### further read-only views of the mapper -/

/-- `unique_model_param_names`: the local names used by any model (sorted by the harness) -/
def modelFieldNames (s : PMM V) : List String := (s.mpn.flatten.filterMap id).eraseDups

/-- the `<name>:gpidx` entry of a cell (`0` = the `np.zeros` default of a not applicable cell) -/
def cellGpidx : Option (V × Int) → Int
  | none => 0
  | some (_, g) => g

/-- a record array as returned by `srcParamsRecarray`: field names and rows -/
abbrev RecArray (V : Type) := List String × List (Nat × List (Option (V × Int)))

/-- the column `rec[f + ':gpidx']`; `none` = no such field -/
def gpidxColumn (rec : RecArray V) (f : String) : Option (List Int) :=
  match idxOf? f rec.1 with
  | none => none
  | some c => some (rec.2.map (fun r => match r.2[c]? with
      | some cell => cellGpidx cell
      | none => 0))

/-- `is_global_fitparam_a_local_param(fitparam_id, params_recarray, local_param_names)`:
names without a field are skipped, a name counts when some source has `gpidx == fitparam_id + 1`. -/
def isGlobalFitparamALocalParam (k : Nat) (rec : RecArray V) (names : List String) : Bool :=
  names.any (fun n => match gpidxColumn rec n with
    | none => false
    | some col => col.any (fun g => g == (k : Int) + 1))

/-- `is_local_param_a_fitparam(local_param_name, params_recarray)`: `np.any(rec[name:gpidx] > 0)`;
a missing field raises (numpy `ValueError: no field of name`). -/
def isLocalParamAFitparam (n : String) (rec : RecArray V) : Except Err Bool :=
  match gpidxColumn rec n with
  | none => .error .valueError
  | some col => .ok (col.any (fun g => decide (0 < g)))

/-- column positions of the entries equal to `some n` in one alias row -/
def whereAlias (n : String) : List (Option String) → Nat → List Nat
  | [], _ => []
  | r :: row, j => if r = some n then j :: whereAlias n row (j + 1) else whereAlias n row (j + 1)

/-- `get_local_param_is_global_floating_param_mask(local_param_names)`:
`gpidxs = unique(nonzero(mpn == name)[1])`, true when one of them is a floating global index. -/
def localParamIsGlobalFloatingMask (s : PMM V) (names : List String) : List Bool :=
  let flIdxs := whereTrue s.gps.floatMask 0
  names.map (fun n =>
    let gpidxs := (s.mpn.flatMap (fun row => whereAlias n row 0)).eraseDups
    gpidxs.any (fun j => flIdxs.contains j))

/-- `create_src_params_recarray(gflp_values=None)`: the floating values are filled with `nan` -/
def srcParamsRecarrayNone (nan : V) (s : PMM V) (sel : Option (List Nat)) : Except Err (RecArray V) :=
  s.srcParamsRecarray (List.replicate s.gps.floatNames.length nan) sel

/-- `create_src_params_recarray(gflp, sources=<int32 ndarray>)`: the array is used as the list of
*model* indices as it is (no source test, any order, repetitions allowed). -/
def srcRowsIdx (s : PMM V) (g : List V) (fields : List String) :
    List Nat → Except Err (List (Nat × List (Option (V × Int))))
  | [] => .ok []
  | i :: is =>
    match s.mpn[i]? with
    | none => .error .indexError
    | some row =>
      -- `recarray[name][i] = value` for a local name that is no field of the array raises
      if (row.filterMap id).all (fun a => fields.contains a) then
        match srcRow s g fields i, srcRowsIdx s g fields is with
        | .ok r, .ok rs => .ok (r :: rs)
        | .error e, _ => .error e
        | _, .error e => .error e
      else .error .valueError

def srcParamsRecarrayIdx (s : PMM V) (g : List V) (idxs : List Nat) : Except Err (RecArray V) :=
  if g.length ≠ s.gps.floatNames.length then .error .valueError else
  match srcRowsIdx s g s.srcFieldNames idxs with
  | .ok rows => .ok (s.srcFieldNames, rows)
  | .error e => .error e

/-- `create_model_params_dict(gflp, model=<name or Model object>)`: lookup by model name first -/
def modelParamsDictByName (s : PMM V) (g : List V) (name : String) : Except Err (List (String × V)) :=
  match modelIdxByName name s.models 0 with
  | .error e => .error e
  | .ok midx => s.modelParamsDict g midx

end PMM

/-! ### the two state machines -/

/-- constructor arguments of a `Parameter` -/
structure PArgs (V : Type) where
  name : String
  initial : V
  valmin : Option V
  valmax : Option V
  isfixed : Option Bool
  deriving DecidableEq, Repr

inductive Op (V : Type)
  | add (a : PArgs V) (front : Bool)
  | fix (req : List (String × FixVal V))
  | float (req : List (String × PSet.FloatEntry V))
  | setv (n : String) (v : V)
  | union (other : List (PArgs V)) (left : Bool)     -- `union(self, other)` / `union(other, self)`
  | unionN (others : List (List (PArgs V))) (pos : Nat)   -- `union(o_1, …, self at position pos, …, o_k)`
  | chfix (n : String) (v : V)      -- `change_fixed_value(v)` on the object + `update_fixed_param_value_cache()`
  | copy
  | badArgs     -- `add_param` / `map_param` / `union` with a Parameter whose constructor arguments are no single
                -- numbers (`Parameter('a', [1., 2.])`): the `TypeError` is raised before any container is touched
  | map (a : PArgs V) (models : Option (List Nat)) (al : AliasArg)   -- mapper histories only
  deriving Repr

section step
variable {V : Type} [LT V] [DecidableLT V]

def PArgs.create (a : PArgs V) : Except Err (Param V) :=
  Param.create a.name a.initial a.valmin a.valmax a.isfixed

def createAll : List (PArgs V) → Except Err (List (Param V))
  | [] => .ok []
  | a :: as => match a.create, createAll as with
    | .ok p, .ok ps => .ok (p :: ps)
    | .error e, _ => .error e
    | _, .error e => .error e

def liftE {σ : Type} (s : σ) : Except Err σ → σ × Except Err Unit
  | .ok s' => (s', .ok ())
  | .error e => (s, .error e)

/-- the operand sets of an n-ary union: `ParameterSet([Parameter(…), …])` one after the other -/
def createSets : List (List (PArgs V)) → Except Err (List (PSet V))
  | [] => .ok []
  | o :: os => match createAll o with
    | .error e => .error e
    | .ok ps => match PSet.addAll PSet.empty ps with
      | .error e => .error e
      | .ok t => match createSets os with
        | .ok ts => .ok (t :: ts)
        | .error e => .error e

def insertAt {α : Type} (l : List α) (pos : Nat) (x : α) : List α := l.take pos ++ x :: l.drop pos

/-- one edit of a `ParameterSet` history -/
def PSet.step (s : PSet V) : Op V → PSet V × Except Err Unit
  | .add a front => match a.create with
    | .ok p => liftE s (s.addParam p front)
    | .error e => (s, .error e)
  | .fix req => s.makeParamsFixed req
  | .float req => s.makeParamsFloating req
  | .setv n v => s.setValue n v
  | .union other left => match createAll other with
    | .error e => (s, .error e)
    | .ok ps => match PSet.addAll PSet.empty ps with
      | .error e => (s, .error e)
      | .ok t => liftE s (if left then PSet.union s t else PSet.union t s)
  | .unionN others pos => match createSets others with
    | .error e => (s, .error e)
    | .ok ts => liftE s (PSet.unionN (insertAt ts pos s))
  | .chfix n v => s.changeFixedValue n v
  | .copy => (s, .ok ())
  | .badArgs => (s, .error .typeError)
  | .map _ _ _ => (s, .error .typeError)

/-- one edit of a `ParameterModelMapper` history (fix / float / value act on `global_paramset`) -/
def PMM.step (s : PMM V) : Op V → PMM V × Except Err Unit
  | .map a models al => match a.create with
    | .ok p => s.mapParam p models al
    | .error e => (s, .error e)
  | .fix req => let r := s.gps.makeParamsFixed req; ({ s with gps := r.1 }, r.2)
  | .float req => let r := s.gps.makeParamsFloating req; ({ s with gps := r.1 }, r.2)
  | .setv n v => let r := s.gps.setValue n v; ({ s with gps := r.1 }, r.2)
  | .chfix n v => let r := s.gps.changeFixedValue n v; ({ s with gps := r.1 }, r.2)
  | _ => (s, .error .typeError)

/-- run a history; rejected operations are recorded and the run continues from the post-state -/
def PSet.run (s : PSet V) : List (Op V) → PSet V
  | [] => s
  | op :: ops => PSet.run (s.step op).1 ops

def PMM.run (s : PMM V) : List (Op V) → PMM V
  | [] => s
  | op :: ops => PMM.run (s.step op).1 ops

end step

/-! ### the specification machine: what the bare parameter list becomes under an edit -/

namespace Spec
variable {V : Type} [LT V] [DecidableLT V]

/-- fix / float at specification level: the first parameter (in declaration order) whose request is
invalid rejects the whole request; otherwise exactly the named parameters are replaced. -/
def editAll (f : Param V → Except Err (Option (Param V))) (ps : List (Param V)) :
    List (Param V) × Except Err Unit :=
  match PSet.validate f ps with
  | .error e => (ps, .error e)
  | .ok _ => (ps.map (applyF f), .ok ())

/-- `a ∪ b`: `a`, then the parameters of `b` whose name does not occur in `a` -/
def unionList (a b : List (Param V)) : List (Param V) :=
  a ++ b.filter (fun p => !(a.map (·.name)).contains p.name)

/-- union of any number of lists, left to right (the caller guarantees at least one) -/
def unionAll : List (List (Param V)) → List (Param V)
  | [] => []
  | a :: rest => rest.foldl unionList a

/-- the parameter lists of the operand sets: a repeated name inside one operand is a `KeyError` -/
def createLists : List (List (PArgs V)) → Except Err (List (List (Param V)))
  | [] => .ok []
  | o :: os => match createAll o with
    | .error e => .error e
    | .ok ps =>
      if (ps.map (·.name)).Nodup then
        match createLists os with
        | .ok pss => .ok (ps :: pss)
        | .error e => .error e
      else .error .keyError

def step (ps : List (Param V)) : Op V → List (Param V) × Except Err Unit
  | .add a front => match a.create with
    | .error e => (ps, .error e)
    | .ok p =>
      if (ps.map (·.name)).contains p.name then (ps, .error .keyError)
      else (if front then p :: ps else ps ++ [p], .ok ())
  | .fix req => editAll (PSet.fixF req) ps
  | .float req => editAll (PSet.floatF req) ps
  | .setv n v => match ps.find? (fun p => p.name = n) with
    | none => (ps, .error .keyError)
    | some p => match p.setValue v with
      | .error e => (ps, .error e)
      | .ok _ => (ps.map (fun q => if q.name = n then { q with value := v } else q), .ok ())
  | .union other left => match createAll other with
    | .error e => (ps, .error e)
    | .ok os =>
      if (os.map (·.name)).Nodup then
        (if left then unionList ps os else unionList os ps, .ok ())
      else (ps, .error .keyError)
  | .unionN others pos => match createLists others with
    | .error e => (ps, .error e)
    | .ok oss => (unionAll (insertAt oss pos ps), .ok ())
  | .chfix n v => match ps.find? (fun p => p.name = n) with
    | none => (ps, .error .keyError)
    | some p => match p.changeFixedValue v with
      | .error e => (ps, .error e)
      | .ok _ => (ps.map (fun q => if q.name = n then { q with initial := v, value := v } else q), .ok ())
  | .copy => (ps, .ok ())
  | .badArgs => (ps, .error .typeError)
  | .map _ _ _ => (ps, .error .typeError)

def run (ps : List (Param V)) : List (Op V) → List (Param V)
  | [] => ps
  | op :: ops => run (step ps op).1 ops

end Spec

end Params
