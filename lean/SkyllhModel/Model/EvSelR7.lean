/-
C05, round 7: the consumers of the stored pair table on `TrialDataManager` (skyllh/core/trialdata.py).
The table is only "valid" relative to the code that reads it; these are the readers, mirrored as coded:

  * `get_n_values`                                       (`TdmObj.nValues`, Model/EvSel.lean)
  * `broadcast_sources_array_to_values_array(arr)`       `bcastSources`  (run-length construction: the loop
        over `enumerate(arr)` writes `count_nonzero(src_idxs == src_idx)` copies of the source value at a
        running offset — this is where "grouped by ascending source" is assumed)
  * `broadcast_sources_arrays_to_values_arrays(arrays)`  `bcastSourcesMany`
  * `broadcast_selected_events_arrays_to_values_arrays`  `bcastSelected` (`np.take(arr, evt_idxs)`)
  * `get_values_mask_for_source_mask(src_mask)`          `valuesMask` (`|=` loop over the masked sources)

Exceptions are `Except ConsErr`; entries of the `np.empty` output that the loop never writes are `none`.
Core Lean only.
-/
import SkyllhModel.Model.EvSel

namespace EvSel

/-- `np.count_nonzero(src_idxs == src_idx)` -/
def countEq (src : List Nat) (k : Nat) : Nat := (src.filter (fun s => s == k)).length

/-- the loop `for (src_idx, src_value) in enumerate(arr): n = count(src_idxs == src_idx);
out_arr[v_start:v_start+n] = full(n, src_value); v_start += n`, started at source index `k`: the written
prefix of the output -/
def bcastLoop {α : Type} (src : List Nat) : Nat → List α → List α
  | _, [] => []
  | k, a :: as => List.replicate (countEq src k) a ++ bcastLoop src (k + 1) as

/-- exceptions of the table consumers: no table stored (`None[0]` → TypeError), array / mask of the wrong
length (ValueError / IndexError), index out of bounds in `np.take` (IndexError) -/
inductive ConsErr where
  | noTable | badLength | badIndex
deriving DecidableEq, Repr

/-- `TrialDataManager.broadcast_sources_array_to_values_array(arr)` with `K = self.n_sources`,
`P = self._src_evt_idxs`.  Statement order of the code: `get_n_values()` first, then the length-1
shortcut, then the length check, then the loop over an `np.empty` output (`none` = never written). -/
def bcastSources {α : Type} (K : Nat) (P : Option Pairs) (arr : List α) : Except ConsErr (List (Option α)) :=
  match P with
  | none => .error .noTable
  | some P =>
    let nv := P.length
    match arr with
    | [a] => .ok (List.replicate nv (some a))
    | _ =>
      if arr.length != K then .error .badLength
      else
        let filled := bcastLoop (P.map Prod.fst) 0 arr
        .ok (filled.map some ++ List.replicate (nv - filled.length) none)

/-- `broadcast_sources_arrays_to_values_arrays(arrays)`: list comprehension, the first exception aborts -/
def bcastSourcesMany {α : Type} (K : Nat) (P : Option Pairs) (arrs : List (List α)) :
    Except ConsErr (List (List (Option α))) :=
  arrs.mapM (bcastSources K P)

/-- `np.take(arr, evt_idxs)` for one array of `broadcast_selected_events_arrays_to_values_arrays` (the length
of the array is not checked by the code) -/
def bcastSelected1 {α : Type} (P : Pairs) (a : List α) : Except ConsErr (List α) :=
  match take a (P.map Prod.snd) with
  | none => .error .badIndex
  | some r => .ok r

/-- `broadcast_selected_events_arrays_to_values_arrays(arrays)`: `evt_idxs = self._src_evt_idxs[1]` first
(TypeError without a table, also for an empty sequence), then the list comprehension -/
def bcastSelected {α : Type} (P : Option Pairs) (arrs : List (List α)) : Except ConsErr (List (List α)) :=
  match P with
  | none => .error .noTable
  | some P => arrs.mapM (bcastSelected1 P)

/-- `get_values_mask_for_source_mask(src_mask)`: `src_idxs = np.arange(n_sources)[src_mask]` (boolean index
of the wrong length → IndexError), `values_mask = zeros(n_values)`, `values_mask |= tdm_src_idxs == src_idx`
for every masked source -/
def valuesMask (K : Nat) (P : Option Pairs) (srcMask : List Bool) : Except ConsErr (List Bool) :=
  match P with
  | none => .error .noTable
  | some P =>
    if srcMask.length != K then .error .badLength
    else
      let sel := compress srcMask (List.range K)
      let src := P.map Prod.fst
      .ok (sel.foldl (fun vm k => List.zipWith (fun a b => a || b) vm (src.map (fun s => s == k)))
        (List.replicate P.length false))

/-! ### the readers as methods of the manager object: they read `_n_sources` and `_src_evt_idxs` of the object -/

/-- `tdm.broadcast_sources_array_to_values_array(arr)` -/
def TdmObj.readSources {ε α : Type} (s : TdmObj ε) (arr : List α) : Except ConsErr (List (Option α)) :=
  bcastSources s.nSources s.srcEvtIdxs arr
/-- `tdm.broadcast_sources_arrays_to_values_arrays(arrays)` -/
def TdmObj.readSourcesMany {ε α : Type} (s : TdmObj ε) (arrs : List (List α)) : Except ConsErr (List (List (Option α))) :=
  bcastSourcesMany s.nSources s.srcEvtIdxs arrs
/-- `tdm.broadcast_selected_events_arrays_to_values_arrays(arrays)` -/
def TdmObj.readSelected {ε α : Type} (s : TdmObj ε) (arrs : List (List α)) : Except ConsErr (List (List α)) :=
  bcastSelected s.srcEvtIdxs arrs
/-- `tdm.get_values_mask_for_source_mask(src_mask)` -/
def TdmObj.readValuesMask {ε : Type} (s : TdmObj ε) (m : List Bool) : Except ConsErr (List Bool) :=
  valuesMask s.nSources s.srcEvtIdxs m

/-- `IntersectionEventSelectionMethod.change_shg_mgr` when a sub-method may reject the manager: `acc1` / `acc2`
= the argument check of sub-method 1 / 2 (`_check_shg_mgr`: type of the manager; PsiFunc: exactly one
source) accepts.  `twoPhase` is the code after the round-7 fix: both checks run before any sub-method is
changed.  Without it sub-method 1 is changed before sub-method 2 raises.  Result: the two objects after the
call and whether the call raised. -/
def chainChangeChecked {S : Type} (twoPhase acc1 acc2 : Bool) (o : EsmObj S × EsmObj S) (id : Nat)
    (srcs : List S) : (EsmObj S × EsmObj S) × Bool :=
  if twoPhase then
    if acc1 && acc2 then ((o.1.changeShgMgr false id srcs, o.2.changeShgMgr false id srcs), false)
    else (o, true)
  else if !acc1 then (o, true)
  else if !acc2 then ((o.1.changeShgMgr false id srcs, o.2), true)
  else ((o.1.changeShgMgr false id srcs, o.2.changeShgMgr false id srcs), false)


end EvSel
