/-
  Object identity for property C04: `Parameter` objects live in a heap, a `ParameterSet` holds
  *references* to them next to its own caches.  This is what the value-semantics model
  (`Model/Params.lean`) cannot express: `ParameterSet.union` and `ParameterSet(params=…)` store the
  caller's `Parameter` objects (two sets then share objects), `copy()` deep-copies them.

  Every edit of one set is the value-level edit of `Model/Params.lean` applied to the dereferenced
  view of that set, followed by writing the changed objects back to the heap; the caches of *other* sets
  holding the same objects are not touched — exactly as in the code.
-/
import SkyllhModel.Model.Params

namespace Params.Heap
open Params

variable {V : Type}

/-- a `ParameterSet` object: references to `Parameter` objects + its private caches (`st.params` is
never read: it is replaced by the dereferenced objects) -/
structure RefSet (V : Type) where
  ids : List Nat
  st : PSet V

/-- the heap of `Parameter` objects and the `ParameterSet` objects alive (registers) -/
structure World (V : Type) where
  heap : List (Param V)
  sets : List (RefSet V)

def deref (heap : List (Param V)) (ids : List Nat) : List (Param V) := ids.filterMap (fun i => heap[i]?)

/-- the set as its methods see it: own caches, current state of the referenced objects -/
def RefSet.view (r : RefSet V) (heap : List (Param V)) : PSet V := { r.st with params := deref heap r.ids }

/-- the objects `ids` now hold the states `ps` -/
def writeBack (heap : List (Param V)) : List Nat → List (Param V) → List (Param V)
  | i :: is, p :: ps => writeBack (heap.set i p) is ps
  | _, _ => heap

def World.empty : World V := { heap := [], sets := [⟨[], PSet.empty⟩] }

/-- an edit that keeps the number and order of the parameters of set `k` (fix, float, value setter,
`change_fixed_value`): run it on the view, write the objects back, keep the new caches in set `k` only. -/
def editThrough (w : World V) (k : Nat) (f : PSet V → PSet V × Except Err Unit) : World V × Except Err Unit :=
  match w.sets[k]? with
  | none => (w, .error .indexError)
  | some r =>
    let res := f (r.view w.heap)
    ({ heap := writeBack w.heap r.ids res.1.params, sets := w.sets.set k { r with st := res.1 } }, res.2)

/-- `sets[k].add_param(Parameter(…), atfront)`: a new object on the heap -/
def addThrough (w : World V) (k : Nat) (p : Param V) (front : Bool) : World V × Except Err Unit :=
  match w.sets[k]? with
  | none => (w, .error .indexError)
  | some r =>
    match (r.view w.heap).addParam p front with
    | .error e => (w, .error e)
    | .ok st' =>
      let id := w.heap.length
      ({ heap := w.heap ++ [p],
         sets := w.sets.set k { ids := if front then id :: r.ids else r.ids ++ [id], st := st' } }, .ok ())

/-- references of `b` whose object has a name not yet among `names` (the second loop of `union`) -/
def newIds (heap : List (Param V)) : List String → List Nat → List Nat
  | _, [] => []
  | names, i :: is => match heap[i]? with
    | none => newIds heap names is
    | some p => if names.contains p.name then newIds heap names is else i :: newIds heap (names ++ [p.name]) is

/-- `ParameterSet.union(sets[i], sets[j])`: a new set object whose caches are built from scratch but whose
parameters are **the same objects** -/
def unionSets (w : World V) (i j : Nat) : World V × Except Err Unit :=
  match w.sets[i]?, w.sets[j]? with
  | some a, some b =>
    (match PSet.union (a.view w.heap) (b.view w.heap) with
      | .error e => (w, .error e)
      | .ok st =>
        let ids := a.ids ++ newIds w.heap ((deref w.heap a.ids).map (·.name)) b.ids
        ({ w with sets := w.sets ++ [⟨ids, st⟩] }, .ok ()))
  | _, _ => (w, .error .indexError)

/-- `ParameterSet(params=sets[i].params)`: new set object, caches from scratch, same objects -/
def ctorFrom (w : World V) (i : Nat) : World V × Except Err Unit :=
  match w.sets[i]? with
  | none => (w, .error .indexError)
  | some a =>
    match PSet.addAll PSet.empty (deref w.heap a.ids) with
    | .error e => (w, .error e)
    | .ok st => ({ w with sets := w.sets ++ [⟨a.ids, st⟩] }, .ok ())

/-- `sets[i].copy()` (`deepcopy`): new objects, copied caches -/
def copySet (w : World V) (i : Nat) : World V × Except Err Unit :=
  match w.sets[i]? with
  | none => (w, .error .indexError)
  | some a =>
    let objs := deref w.heap a.ids
    ({ heap := w.heap ++ objs,
       sets := w.sets ++ [⟨List.range' w.heap.length objs.length, a.st⟩] }, .ok ())

inductive WOp (V : Type)
  | add (k : Nat) (a : PArgs V) (front : Bool)
  | fix (k : Nat) (req : List (String × FixVal V))
  | float (k : Nat) (req : List (String × PSet.FloatEntry V))
  | setv (k : Nat) (n : String) (v : V)
  | union (i j : Nat)
  | ctor (i : Nat)
  | copy (i : Nat)

section step
variable [LT V] [DecidableLT V]

def World.step (w : World V) : WOp V → World V × Except Err Unit
  | .add k a front => match a.create with
    | .error e => (w, .error e)
    | .ok p => addThrough w k p front
  | .fix k req => editThrough w k (fun s => s.makeParamsFixed req)
  | .float k req => editThrough w k (fun s => s.makeParamsFloating req)
  | .setv k n v => editThrough w k (fun s => s.setValue n v)
  | .union i j => unionSets w i j
  | .ctor i => ctorFrom w i
  | .copy i => copySet w i

def World.run (w : World V) : List (WOp V) → World V
  | [] => w
  | op :: ops => World.run (w.step op).1 ops

end step

/-- the views of set `k` (as its methods compute them from its caches and the referenced objects) -/
def World.viewsOf (w : World V) (k : Nat) (q : List String) (g : List V) : Option (PSet.Views V) :=
  match w.sets[k]? with
  | none => none
  | some r => some ((r.view w.heap).views q g)

end Params.Heap
