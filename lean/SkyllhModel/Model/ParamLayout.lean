/-
  Model/ParamLayout.lean — the bookkeeping that links local source parameters to global fit
  parameters (property C02): `ParameterModelMapper.map_param`, `.create_src_params_recarray`
  (`skyllh/core/parameters.py`) and what the consumers do with the `<name>:gpidx` field.

  A layout is the declaration-ordered list of global parameters; every global parameter is fixed or
  floating and maps, for each source, to at most one local parameter name (an alias may differ from
  source to source).  Local parameter names are numbered.  `map_param` refuses to define the same local
  name twice for one model (`KeyError`), which is `WellFormed`.

  `create_src_params_recarray` (per source `k`):

      model_param_names = concat(names[k, floating & mapped], names[k, fixed & mapped])
      gflpidxs      = np.cumsum(gflp_mask) - 1
      model_gp_idxs = concat(gflpidxs[floating & mapped] + 1, -gpidxs[fixed & mapped] - 1)
      for (name, value, gpidx) in zip(...):  recarray[f'{name}:gpidx'][k] = gpidx      # zeros before

  `gpidxFieldPinned` is the formula of the pinned commit (`gpidxs[floating & mapped] + 1`, the index
  among *all* global parameters); it is kept to state what was wrong with it.
  Core Lean only; no numerics.
-/

namespace ParamLayout

/-- one global parameter -/
structure GParam where
  fixed : Bool
  /-- per source: the local parameter name (number) this global parameter is mapped to, if any -/
  names : List (Option Nat)
deriving Repr, DecidableEq

abbrev Layout := List GParam

def fixedAt (L : Layout) (g : Nat) : Bool := (L[g]?.map (·.fixed)).getD true

/-- global parameter `g` is mapped to source `k` under local name `n` -/
def mapsTo (L : Layout) (g k n : Nat) : Bool :=
  match L[g]? with
  | some p => p.names.getD k none == some n
  | none => false

def isFloating (L : Layout) (g : Nat) : Bool := g < L.length && !fixedAt L g

/-- global indices of the floating parameters in declaration order
(`ParameterSet.floating_params_idxs`); position in this list = fit-parameter id -/
def floatingIdxs (L : Layout) : List Nat := (List.range L.length).filter (isFloating L)

/-- `n_global_floating_params` = `len(fitparam_values)` = length of the returned gradient vector -/
def nFloating (L : Layout) : Nat := (floatingIdxs L).length

/-- `(np.cumsum(gflp_mask) - 1)[g]` at a floating `g`: the number of floating parameters declared
before `g` -/
def floatRank (L : Layout) (g : Nat) : Nat := ((List.range g).filter (isFloating L)).length

/-- value written into `<name>:gpidx` on behalf of global parameter `g` (current code) -/
def gpidxOf (L : Layout) (g : Nat) : Int :=
  if fixedAt L g then -(g : Int) - 1 else (floatRank L g : Int) + 1

/-- the same at the pinned commit -/
def gpidxOfPinned (L : Layout) (g : Nat) : Int :=
  if fixedAt L g then -(g : Int) - 1 else (g : Int) + 1

/-- the global parameters writing into field `n` of source `k`, in the code's order
(floating ones first, then fixed ones) -/
def writers (L : Layout) (k n : Nat) : List Nat :=
  (List.range L.length).filter (fun g => !fixedAt L g && mapsTo L g k n) ++
  (List.range L.length).filter (fun g => fixedAt L g && mapsTo L g k n)

/-- `recarray['<n>:gpidx'][k]` — zero-initialised, last write wins -/
def gpidxFieldWith (val : Layout → Nat → Int) (L : Layout) (k n : Nat) : Int :=
  match (writers L k n).getLast? with
  | none => 0
  | some g => val L g

def gpidxField : Layout → Nat → Nat → Int := gpidxFieldWith gpidxOf
def gpidxFieldPinned : Layout → Nat → Nat → Int := gpidxFieldWith gpidxOfPinned

/-- number of fixed parameters declared before `g` (index into `fixed_param_values`) -/
def fixedRank (L : Layout) (g : Nat) : Nat :=
  ((List.range g).filter (fun h => h < L.length && fixedAt L h)).length

/-- `recarray['<n>'][k]`: the value column of `create_src_params_recarray`
(`gflp_values[src_gp_mask[gflp_mask]]` for floating, `fixed_param_values[src_gp_mask[gfxp_mask]]` for fixed
parameters, last write wins); `none` = the initial NaN of an unmapped local parameter or an index
outside the given value arrays -/
def localValue {F : Type} (L : Layout) (θ fx : List F) (k n : Nat) : Option F :=
  match (writers L k n).getLast? with
  | none => none
  | some g => if fixedAt L g then fx[fixedRank L g]? else θ[floatRank L g]?

/-- the whole `K × nNames` table -/
def gpTable (field : Layout → Nat → Nat → Int) (L : Layout) (K nNames : Nat) : List (List Int) :=
  (List.range K).map (fun k => (List.range nNames).map (fun n => field L k n))

/-- `map_param` accepted every declaration: no source gets the same local name from two global
parameters -/
def WellFormed (L : Layout) : Prop :=
  ∀ g h k n, mapsTo L g k n = true → mapsTo L h k n = true → g = h

/-- executable form of `WellFormed` for `K` sources and names `< nNames` -/
def wellFormedB (L : Layout) (K nNames : Nat) : Bool :=
  (List.range L.length).all fun g => (List.range L.length).all fun h =>
    (List.range K).all fun k => (List.range nNames).all fun n =>
      !(mapsTo L g k n && mapsTo L h k n) || g == h

/-- keys of the gradient dictionaries built from field `n` (`gfp_idxs[gfp_idxs > 0] - 1` in
`detsigyield.__call__`, then `a_jk_grads`, `f_j_grads`) -/
def gradKeys (field : Layout → Nat → Nat → Int) (L : Layout) (K n : Nat) : List Int :=
  (((List.range K).map (fun k => field L k n)).filter (0 < ·)).map (· - 1)

/-- `f_grads[:, pidx] = f_grads_dict[pidx]` into a `(J, n_fitparams)` array: `none` = `IndexError` -/
def keysInRange (field : Layout → Nat → Nat → Int) (L : Layout) (K nNames : Nat) : Bool :=
  (List.range nNames).all fun n => (gradKeys field L K n).all fun key => key < (nFloating L : Int)

end ParamLayout
