/-
  Model of the signal injection of skyllh — property C18.

    skyllh/core/signal_generator.py   MultiDatasetSignalGenerator.generate_signal_events   (§2 distribute)
                                      MCMultiDatasetSignalGenerator._construct_signal_candidates (§3 table),
                                      .generate_signal_events / ._draw_valid_sig_events_for_dataset_and_shg (§4),
                                      .mu2flux (§6)
    skyllh/core/random.py             RandomChoice.__call__ and numpy's RandomState.choice(p=…)     (§1 choice)
    skyllh/i3/signal_generation.py    source_sin_dec_shift_linear, _get_src_dec_bands,
                                      calc_source_signal_mc_event_flux                              (§3)
    skyllh/core/utils/coords.py       rotate_signal_events_on_sphere = astropy position_angle,
                                      separation (Vincenty), offset_by                             (§5)

  Core Lean only.  Numeric code is written against the standard notation classes + `Transc`
  (+ the law-free `Atan2` below), so it runs on `Float` in the driver, on `Rat` for the exact
  witness, and is reasoned about over ordered fields / ℝ in `Props/C18.lean`.
  Random numbers enter as the list of uniform deviates of `[0,1)` the generator consumes, in order.
  `none` always stands for a Python exception (IndexError, negative size, …) or for "not enough
  deviates / fuel supplied".
-/
import SkyllhModel.Scalar

/-- `arctan2` is not in `Transc`; law-free like `Transc` (ℝ instance in `Props/C18.lean`). -/
class Atan2 (F : Type) where
  atan2 : F → F → F

instance : Atan2 Float := ⟨Float.atan2⟩

namespace SigGen

/-! ## §1  weighted random choice: `cdf = cumsum(p); cdf /= cdf[-1]; searchsorted(cdf, u, side)` -/

section choice
variable {F : Type} [Add F] [Div F] [LE F] [DecidableLE F] [LT F] [DecidableLT F] [OfNat F 0]

/-- `np.cumsum` (sequential) continuing from `acc` -/
def cumFrom (acc : F) : List F → List F
  | [] => []
  | x :: xs => (acc + x) :: cumFrom (acc + x) xs

def cumsum (xs : List F) : List F := cumFrom 0 xs

/-- sequential sum (`np.sum` of fewer than 8 numbers; exact-arithmetic meaning otherwise) -/
def sumFrom (acc : F) : List F → F
  | [] => acc
  | x :: xs => sumFrom (acc + x) xs

def sumSeq (xs : List F) : F := sumFrom 0 xs

/-- `cdf = cumsum(p); cdf /= cdf[-1]` -/
def normCdf (p : List F) : List F :=
  let c := cumsum p
  match c.getLast? with
  | some l => c.map (· / l)
  | none => []

/-- `np.searchsorted(cdf, u, side)` for a non-decreasing `cdf`: number of entries `≤ u` (right) or
`< u` (left). -/
def search (right : Bool) (cdf : List F) (u : F) : Nat :=
  if right then cdf.countP (fun c => decide (c ≤ u)) else cdf.countP (fun c => decide (c < u))

/-- index chosen by `RandomState.choice(p=p)` / `RandomChoice` for the uniform deviate `u` -/
def choice (right : Bool) (p : List F) (u : F) : Nat := search right (normCdf p) u

end choice

/-! ## §2  distribution of the total over the datasets -/

/-- `n[i] += d` (`none` = IndexError) -/
def bump : List Int → Nat → Int → Option (List Int)
  | [], _, _ => none
  | x :: xs, 0, d => some ((x + d) :: xs)
  | x :: xs, i + 1, d => (bump xs i d).map (x :: ·)

section distribute
variable {F : Type} [Add F] [Mul F] [Div F] [LE F] [DecidableLE F] [LT F] [DecidableLT F] [OfNat F 0]

/-- `np.round(mean * ds_weights, 0).astype(int)`; `rnd` is the rounding to the nearest integer,
`m` the total as a scalar -/
def roundCounts (rnd : F → Int) (m : F) (w : List F) : List Int := w.map (fun wi => rnd (m * wi))

/-- too few events after rounding: one more event for every drawn dataset
(`n[unique(draws)] += counts` is the same as adding the draws one by one) -/
def incr (right : Bool) (w : List F) : List Int → List F → Option (List Int)
  | n, [] => some n
  | n, u :: us =>
    match bump n (choice right w u) 1 with
    | none => none
    | some n' => incr right w n' us

/-- `np.where(n > 0, w, 0.)` -/
def masked (n : List Int) (w : List F) : List F :=
  List.zipWith (fun ni wi => if 0 < ni then wi else 0) n w

/-- too many events after rounding (code after the fix): remove them one by one, each from a dataset
drawn by weight among the datasets that still have events -/
def decr (right : Bool) (w : List F) : List Int → List F → Option (List Int)
  | n, [] => some n
  | n, u :: us =>
    let p := masked n w
    let s := sumSeq p
    match bump n (choice right (p.map (· / s)) u) (-1) with
    | none => none
    | some n' => decr right w n' us

/-- the pre-fix code: the surplus is removed from datasets drawn by weight, whatever they hold -/
def decrOrig (right : Bool) (w : List F) : List Int → List F → Option (List Int)
  | n, [] => some n
  | n, u :: us =>
    match bump n (choice right w u) (-1) with
    | none => none
    | some n' => decrOrig right w n' us

/-- per-dataset event numbers of `MultiDatasetSignalGenerator.generate_signal_events`
(`poisson=False`) and the number of uniform deviates consumed -/
def distributeWith (dec : List Int → List F → Option (List Int))
    (right : Bool) (rnd : F → Int) (mean : Int) (m : F) (w us : List F) : Option (List Int × Nat) :=
  let n0 := roundCounts rnd m w
  let s := n0.sum
  if s < mean then
    let k := (mean - s).toNat
    if us.length < k then none else (incr right w n0 (us.take k)).map (·, k)
  else if mean < s then
    let k := (s - mean).toNat
    if us.length < k then none else (dec n0 (us.take k)).map (·, k)
  else some (n0, 0)

def distribute (right : Bool) (rnd : F → Int) (mean : Int) (m : F) (w us : List F) :=
  distributeWith (decr right w) right rnd mean m w us

def distributeOrig (right : Bool) (rnd : F → Int) (mean : Int) (m : F) (w us : List F) :=
  distributeWith (decrOrig right w) right rnd mean m w us

end distribute


/-! ## §2b  aggregation of the per-dataset generators (`MultiDatasetSignalGenerator`, after the count vector) -/

/-- a per-dataset signal generator: requested number ↦ (reported number, events per dataset key);
`none` = it raises (e.g. for a negative request) -/
abbrev DsGen := Int → Option (Nat × List (Nat × Nat))

/-- `if k not in d: d[k] = v else: d[k].append(v)` on event numbers -/
def mergeKey : List (Nat × Nat) → Nat × Nat → List (Nat × Nat)
  | [], kv => [kv]
  | (k, v) :: rest, kv => if k = kv.1 then (k, v + kv.2) :: rest else (k, v) :: mergeKey rest kv

/-- `for (n_events, gen) in zip(n_events_arr, sig_generator_list)`: stops at the shorter sequence -/
def aggLoop : Nat → List (Nat × Nat) → List Int → List DsGen → Option (Nat × List (Nat × Nat))
  | n, d, c :: cs, g :: gs =>
    match g c with
    | none => none
    | some (k, ev) => aggLoop (n + k) (ev.foldl mergeKey d) cs gs
  | n, d, _, _ => some (n, d)

/-- the code before the fix: a generator list shorter than the dataset list loses events silently -/
def aggregateOrig (counts : List Int) (gens : List DsGen) : Option (Nat × List (Nat × Nat)) :=
  aggLoop 0 [] counts gens

/-- the code after the fix: `ValueError` when the two lengths differ -/
def aggregate (counts : List Int) (gens : List DsGen) : Option (Nat × List (Nat × Nat)) :=
  if gens.length ≠ counts.length then none else aggLoop 0 [] counts gens


/-! ## §2c  `Analysis.generate_signal_events`: the caller's `sig_kwargs` dictionary as state

The dictionary object handed in by the caller is modified in place (`sig_kwargs.update(mean=mean_n_sig)`) and the
callers in `skyllh/core/utils/analysis.py` define it once and reuse it for a scan over several `mean_n_sig`
values, so it is *state shared between calls*.  Only the entry that matters is kept: the `mean` that will be
handed to the signal generator (`none` = no such key). -/

/-- one call: `mean_n_sig == 0` returns early and leaves the dictionary alone; otherwise the key is overwritten
and the generator is called with the dictionary.  -> (dictionary after the call, mean handed to the generator;
`none` = generator not called) -/
def kwCall (kw : Option Int) (meanReq : Int) : Option Int × Option Int :=
  if meanReq = 0 then (kw, none) else (some meanReq, some meanReq)

/-- a variant that only fills the key in when it is missing (`setdefault`) — not the code; kept for the
counterexample -/
def kwCallSetdefault (kw : Option Int) (meanReq : Int) : Option Int × Option Int :=
  if meanReq = 0 then (kw, none)
  else match kw with
    | some m => (some m, some m)
    | none => (some meanReq, some meanReq)

/-- a history of calls that all receive the *same* dictionary object -/
def kwHistory (call : Option Int → Int → Option Int × Option Int) : Option Int → List Int → List (Option Int)
  | _, [] => []
  | kw, r :: rs => (call kw r).2 :: kwHistory call (call kw r).1 rs


/-! ## §2d  the generator object as state: the cached candidate table and the source hypothesis group manager

`MCMultiDatasetSignalGenerator` keeps the candidate table (with weight sum and CDF) it built in the constructor;
`change_shg_mgr` has to rebuild it — also when it is handed the manager *object* it already holds, because
`Analysis.change_source` replaces a source inside the existing manager and then calls `change_shg_mgr` with that
same object.  Manager objects are identified by a number and carry a content version that every in-place
modification increases; the table is a function of (object, version). -/

inductive GenOp where
  | use                      -- generate_signal_events / mu2flux: reads the cached table
  | changeMgr (m : Nat)      -- change_shg_mgr(manager object m)
  | mutate (m : Nat)         -- a source is replaced in place inside manager object m

structure GenSt where
  /-- the manager object the generator holds -/
  mgr : Nat
  /-- content version of every manager object -/
  ver : Nat → Nat
  /-- (object, version) the cached table was built from -/
  cached : Nat × Nat

/-- -> (state after the operation, (object, version) whose candidates the generator works with afterwards) -/
def genStep (s : GenSt) : GenOp → GenSt × (Nat × Nat)
  | .use => (s, s.cached)
  | .changeMgr m => ({ s with mgr := m, cached := (m, s.ver m) }, (m, s.ver m))
  | .mutate m => ({ s with ver := fun k => if k = m then s.ver k + 1 else s.ver k }, s.cached)

/-- a `change_shg_mgr` that forgets to rebuild the candidates — not the code; for the counterexample -/
def genStepStale (s : GenSt) : GenOp → GenSt × (Nat × Nat)
  | .use => (s, s.cached)
  | .changeMgr m => ({ s with mgr := m }, s.cached)
  | .mutate m => ({ s with ver := fun k => if k = m then s.ver k + 1 else s.ver k }, s.cached)

/-- a `change_shg_mgr` that returns early when it is handed the object it already holds — not the code -/
def genStepSameObj (s : GenSt) : GenOp → GenSt × (Nat × Nat)
  | .use => (s, s.cached)
  | .changeMgr m => if m = s.mgr then (s, s.cached) else ({ s with mgr := m, cached := (m, s.ver m) }, (m, s.ver m))
  | .mutate m => ({ s with ver := fun k => if k = m then s.ver k + 1 else s.ver k }, s.cached)

def genRun (step : GenSt → GenOp → GenSt × (Nat × Nat)) : GenSt → List GenOp → List (Nat × Nat)
  | _, [] => []
  | s, op :: ops => (step s op).2 :: genRun step (step s op).1 ops

/-- specification: after `change_shg_mgr(m)` everything works with the content manager `m` had at that call —
tracked without any cache: the versions and the (object, version) in force -/
def genSpec : (Nat → Nat) → Nat × Nat → List GenOp → List (Nat × Nat)
  | _, _, [] => []
  | ver, f, .use :: ops => f :: genSpec ver f ops
  | ver, _, .changeMgr m :: ops => (m, ver m) :: genSpec ver (m, ver m) ops
  | ver, f, .mutate m :: ops => f :: genSpec (fun k => if k = m then ver k + 1 else ver k) f ops

/-! ## §2e  `Analysis.generate_signal_events`: merging the signal into the events handed in

`n_events_list[ds] += len(sig_events)`; `events_list[ds] = sig_events` if it was `None`, else `.append(sig_events)`.
The count handed in need not be the length of the array handed in (background generated with an event
pre-selection: `n_bkg > len(bkg_events)`). -/

/-- one dataset entry: (count, length of the event array or `none`) plus `k` signal events -/
def mergeOne (e : Nat × Option Nat) (k : Nat) : Nat × Option Nat :=
  (e.1 + k, match e.2 with | none => some k | some l => some (l + k))

/-- the loop over `ds_sig_events_dict.items()` (`none` = IndexError for a dataset index out of range) -/
def mergeSig : List (Nat × Option Nat) → List (Nat × Nat) → Option (List (Nat × Option Nat))
  | st, [] => some st
  | st, (d, k) :: rest =>
    match st[d]? with
    | none => none
    | some e => mergeSig (st.set d (mergeOne e k)) rest

/-- a variant that recomputes the count from the array length — not the code; for the counterexample -/
def mergeOneLen (e : Nat × Option Nat) (k : Nat) : Nat × Option Nat :=
  (match e.2 with | none => k | some l => l + k, match e.2 with | none => some k | some l => some (l + k))

/-- round half to even on ℚ (`np.round`) -/
def rintQ (q : Rat) : Int :=
  let f := q.floor
  let d := q - (f : Rat)
  if d < 1/2 then f else if 1/2 < d then f + 1 else if f % 2 = 0 then f else f + 1

/-- `np.round(x, 0).astype(int)` on doubles -/
def rintF (x : Float) : Int := (FloatImpl.rint x).toInt64.toInt

/-! ## §3  declination bands and the signal-candidate table -/

structure Cand where
  ds : Nat
  ev : Nat
  shg : Nat
  src : Nat
deriving DecidableEq, Repr, Inhabited

section bands
variable {F : Type} [Add F] [Sub F] [Mul F] [Div F] [Neg F] [OfNat F 2]

/-- `source_sin_dec_shift_linear(x, w, L, U)` -/
def shiftLinear (x w L U : F) : F :=
  let m := (-(2 : F)) * w / (U - L)
  let b := w * (L + U) / (U - L)
  m * x + b

/-- `_get_src_dec_bands`: (band_min, band_max) for a source with `x = sin(dec)` -/
def band (x w L U : F) : F × F :=
  let s := x + shiftLinear x w L U
  (s - w, s + w)

/-- solid angle of the band, `2 * np.pi * (max - min)` -/
def omega [Transc F] (b : F × F) : F := 2 * Transc.pi * (b.2 - b.1)

end bands

section table
variable {F : Type} [Add F] [Sub F] [Mul F] [Div F] [Neg F] [OfNat F 0] [OfNat F 2]
  [LE F] [DecidableLE F] [Transc F]

/-- one MC event: sin(true dec), true energy, mcweight, flux-model value at its energy -/
structure Ev (F : Type) where
  s : F
  e : F
  mcw : F
  f : F

/-- one source hypothesis group: per source (sin(dec), weight); half band width; energy range; flux unit factor -/
structure Grp (F : Type) where
  srcs : List (F × F)
  hbw : F
  er : Option (F × F)
  unit : F

def inBand (b : F × F) (s : F) : Bool := decide (b.1 ≤ s) && decide (s ≤ b.2)

def inE (er : Option (F × F)) (e : F) : Bool :=
  match er with
  | none => true
  | some (lo, hi) => decide (lo ≤ e) && decide (e ≤ hi)

/-- `(np.min(xs), np.max(xs))`; `none` for an empty array (numpy raises) -/
def minMax : List F → Option (F × F)
  | [] => none
  | x :: xs => some (xs.foldl (fun a y => if y ≤ a then y else a) x, xs.foldl (fun a y => if a ≤ y then y else a) x)

/-- weight of a candidate: `mcweight * (f(E) * unit / omega * src_weight) * livetime * time_factor` -/
def candWeight (mcw f unit om sw lt fac : F) : F := mcw * (f * unit / om * sw) * lt * fac

/-- candidates of one group in one dataset with their (not yet normalised) weights -/
def groupCands (g j : Nat) (G : Grp F) (evs : List (Ev F)) (lt fac : F) : Option (List (Cand × F)) :=
  match minMax (evs.map (·.s)) with
  | none => none
  | some (L, U) =>
    some (G.srcs.zipIdx.flatMap fun sk =>
      let b := band sk.1.1 G.hbw L U
      (evs.zipIdx.filter (fun ei => inBand b ei.1.s && inE G.er ei.1.e)).map
        (fun ei => (⟨j, ei.2, g, sk.2⟩, candWeight ei.1.mcw ei.1.f G.unit (omega b) sk.1.2 lt fac)))

/-- append the candidates of one (group, dataset) pair; an error anywhere is an error of the whole -/
def tableStep {α β : Type} (f : α → Option (List β)) (acc : Option (List β)) (x : α) : Option (List β) :=
  match acc, f x with
  | some a, some c => some (a ++ c)
  | _, _ => none

/-- `itertools.product(enumerate(shg_list), enumerate(data_list))`: group-major.
`evs g j` = events of dataset `j` with the flux model of group `g` evaluated. -/
def tableRaw (grps : List (Grp F)) (nDs : Nat) (evs : Nat → Nat → List (Ev F)) (lt : Nat → F) (fac : F) :
    Option (List (Cand × F)) :=
  (grps.zipIdx.flatMap fun gk => (List.range nDs).map (fun j => (gk, j))).foldl
    (tableStep (fun gj => groupCands gj.1.2 gj.2 gj.1.1 (evs gj.1.2 gj.2) (lt gj.2) fac)) (some [])

/-! ### the same table as coded: sources processed in batches of `src_batch_size` -/

/-- `for bi in range(n_batches): src_slice = slice(bi*bs, min((bi+1)*bs, n))`, source index `bi*bs + k`
(`n_batches = ceil(n / bs)`; `none` = ZeroDivisionError for a batch size 0) -/
def batchedIdx {α : Type} (bs : Nat) (l : List α) : Option (List (α × Nat)) :=
  if bs = 0 then none
  else some ((List.range ((l.length + bs - 1) / bs)).flatMap
    fun bi => ((l.drop (bi * bs)).take bs).zipIdx (bi * bs))

/-- `calc_source_signal_mc_event_flux` with its batch loop -/
def groupCandsB (bs g j : Nat) (G : Grp F) (evs : List (Ev F)) (lt fac : F) : Option (List (Cand × F)) :=
  match minMax (evs.map (·.s)), batchedIdx bs G.srcs with
  | some (L, U), some srcIdx =>
    some (srcIdx.flatMap fun sk =>
      let b := band sk.1.1 G.hbw L U
      (evs.zipIdx.filter (fun ei => inBand b ei.1.s && inE G.er ei.1.e)).map
        (fun ei => (⟨j, ei.2, g, sk.2⟩, candWeight ei.1.mcw ei.1.f G.unit (omega b) sk.1.2 lt fac)))
  | _, _ => none

/-- the table with the batch size `bss g` of group `g` -/
def tableRawB (bss : Nat → Nat) (grps : List (Grp F)) (nDs : Nat) (evs : Nat → Nat → List (Ev F)) (lt : Nat → F)
    (fac : F) : Option (List (Cand × F)) :=
  (grps.zipIdx.flatMap fun gk => (List.range nDs).map (fun j => (gk, j))).foldl
    (tableStep (fun gj => groupCandsB (bss gj.1.2) gj.1.2 gj.2 gj.1.1 (evs gj.1.2 gj.2) (lt gj.2) fac)) (some [])

/-- `weight /= sum(weight)` -/
def normalise (ws : List F) : F × List F :=
  let s := sumSeq ws
  (s, ws.map (· / s))

end table


/-! ### validity ranges (`_get_invalid_events_mask`) -/

section validity
variable {F : Type} [LT F] [DecidableLT F]

/-- `mask |= (v < lo) | (v > hi)` over the configured fields of one event; entries are (value, lo, hi) -/
def invalidMask (rs : List (F × F × F)) : Bool :=
  rs.any (fun r => decide (r.1 < r.2.1) || decide (r.2.2 < r.1))

end validity

/-! ## §4  drawing, validity, redraw loop -/

/-- `buf[start : start + k] = rows` (`set_selection(np.indices((k,))[0] + start, rows)`);
`none` = shape mismatch / IndexError -/
def setSel {α : Type} (buf : List (Option α)) (start k : Nat) (rows : List α) : Option (List (Option α)) :=
  if rows.length = k ∧ start + k ≤ buf.length then
    some (buf.take start ++ rows.map some ++ buf.drop (start + k))
  else none

/-- every slot of the `np.empty` buffer has been written (`none` = an uninitialised row would be returned) -/
def unwrapAll {α : Type} : List (Option α) → Option (List α)
  | [] => some []
  | none :: _ => none
  | some x :: rest => (unwrapAll rest).map (x :: ·)

section generate
variable {F : Type} [Add F] [Div F] [LE F] [DecidableLE F] [LT F] [DecidableLT F] [OfNat F 0]

/-- `RandomChoice.__call__`: one candidate row per deviate (`none` = IndexError) -/
def drawRows (right : Bool) (cands : List Cand) (cdf : List F) : List F → Option (List (Nat × Cand))
  | [] => some []
  | u :: us =>
    match cands[search right cdf u]? with
    | none => none
    | some c => (drawRows right cands cdf us).map ((search right cdf u, c) :: ·)

/-- `np.unique` on indices: ascending, without repetition -/
def uniq (xs : List Nat) : List Nat :=
  (List.range (xs.foldl max 0 + 1)).filter (fun k => xs.contains k)

/-- `_draw_valid_sig_events_for_dataset_and_shg`: draw `need - len(acc)` candidates, keep those of this
dataset and group that are valid, until `need` are collected.  `none` = fuel/deviates exhausted. -/
def redraw (right : Bool) (cands : List Cand) (cdf : List F) (valid : Nat → Bool) (ds shg need : Nat) :
    Nat → List (Nat × Cand) → List F → Option (List (Nat × Cand) × List F)
  | 0, _, _ => none
  | fuel + 1, acc, us =>
    if need ≤ acc.length then some (acc, us)
    else
      let k := need - acc.length
      if us.length < k then none
      else
        match drawRows right cands cdf (us.take k) with
        | none => none
        | some drawn =>
          let kept := drawn.filter (fun rc => rc.2.ds == ds && rc.2.shg == shg && valid rc.1)
          redraw right cands cdf valid ds shg need fuel (acc ++ kept) (us.drop k)

/-- `events[invalid_mask] = redrawn` (`none` = shape mismatch) -/
def replaceInvalid (valid : Nat → Bool) : List (Nat × Cand) → List (Nat × Cand) → Option (List (Nat × Cand))
  | [], [] => some []
  | [], _ :: _ => none
  | r :: rs, new =>
    if valid r.1 then (replaceInvalid valid rs new).map (r :: ·)
    else match new with
      | x :: new' => (replaceInvalid valid rs new').map (x :: ·)
      | [] => none

/-- events of one (dataset, group): the drawn ones, invalid ones replaced by redrawn valid ones -/
def genGroup (right : Bool) (cands : List Cand) (cdf : List F) (valid : Nat → Bool) (ds shg : Nat)
    (rows : List (Nat × Cand)) (us : List F) : Option (List (Nat × Cand) × List F) :=
  let k := rows.countP (fun rc => !valid rc.1)
  if k = 0 then some (rows, us)
  else
    match redraw right cands cdf valid ds shg k (us.length + 1) [] us with
    | none => none
    | some (new, us') => (replaceInvalid valid rows new).map (·, us')

def genShgs (right : Bool) (cands : List Cand) (cdf : List F) (valid : Nat → Bool) (ds : Nat)
    (mrows : List (Nat × Cand)) : List Nat → List F → Option (List (Nat × Cand) × List F)
  | [], us => some ([], us)
  | g :: gs, us =>
    match genGroup right cands cdf valid ds g (mrows.filter (fun rc => rc.2.ds == ds && rc.2.shg == g)) us with
    | none => none
    | some (out, us') =>
      match genShgs right cands cdf valid ds mrows gs us' with
      | none => none
      | some (rest, us'') => some (out ++ rest, us'')

def genDss (right : Bool) (cands : List Cand) (cdf : List F) (valid : Nat → Bool)
    (mrows : List (Nat × Cand)) : List Nat → List F → Option (List (Nat × List (Nat × Cand)) × List F)
  | [], us => some ([], us)
  | d :: ds, us =>
    let shgs := uniq ((mrows.filter (fun rc => rc.2.ds == d)).map (·.2.shg))
    match genShgs right cands cdf valid d mrows shgs us with
    | none => none
    | some (out, us') =>
      match genDss right cands cdf valid mrows ds us' with
      | none => none
      | some (rest, us'') => some ((d, out) :: rest, us'')

/-- `MCMultiDatasetSignalGenerator.generate_signal_events(mean=n, poisson=False)`:
(reported number, events per dataset as (row of the candidate table, candidate), deviates left) -/
def generate (right : Bool) (cands : List Cand) (cdf : List F) (valid : Nat → Bool) (n : Nat) (us : List F) :
    Option (Nat × List (Nat × List (Nat × Cand)) × List F) :=
  if us.length < n then none
  else
    match drawRows right cands cdf (us.take n) with
    | none => none
    | some mrows =>
      match genDss right cands cdf valid mrows (uniq (mrows.map (·.2.ds))) (us.drop n) with
      | none => none
      | some (out, rest) => some (n, out, rest)


/-! ### the same generation as coded: one pre-allocated output buffer per dataset, `fill_start_idx` -/

/-- the group loop of one dataset as coded: output buffer, `fill_start_idx` -/
def genShgsBuf (right : Bool) (cands : List Cand) (cdf : List F) (valid : Nat → Bool) (ds : Nat)
    (mrows : List (Nat × Cand)) : List Nat → List (Option (Nat × Cand)) → Nat → List F →
    Option (List (Option (Nat × Cand)) × Nat × List F)
  | [], buf, start, us => some (buf, start, us)
  | g :: gs, buf, start, us =>
    let rows := mrows.filter (fun rc => rc.2.ds == ds && rc.2.shg == g)
    match genGroup right cands cdf valid ds g rows us with
    | none => none
    | some (out, us') =>
      match setSel buf start rows.length out with
      | none => none
      | some buf' => genShgsBuf right cands cdf valid ds mrows gs buf' (start + rows.length) us'

def genDssBuf (right : Bool) (cands : List Cand) (cdf : List F) (valid : Nat → Bool)
    (mrows : List (Nat × Cand)) : List Nat → List F → Option (List (Nat × List (Nat × Cand)) × List F)
  | [], us => some ([], us)
  | d :: ds, us =>
    let shgs := uniq ((mrows.filter (fun rc => rc.2.ds == d)).map (·.2.shg))
    let buf0 : List (Option (Nat × Cand)) := List.replicate (mrows.filter (fun rc => rc.2.ds == d)).length none
    match genShgsBuf right cands cdf valid d mrows shgs buf0 0 us with
    | none => none
    | some (buf, _, us') =>
      match unwrapAll buf with
      | none => none
      | some out =>
        match genDssBuf right cands cdf valid mrows ds us' with
        | none => none
        | some (rest, us'') => some ((d, out) :: rest, us'')

def generateBuf (right : Bool) (cands : List Cand) (cdf : List F) (valid : Nat → Bool) (n : Nat) (us : List F) :
    Option (Nat × List (Nat × List (Nat × Cand)) × List F) :=
  if us.length < n then none
  else
    match drawRows right cands cdf (us.take n) with
    | none => none
    | some mrows =>
      match genDssBuf right cands cdf valid mrows (uniq (mrows.map (·.2.ds))) (us.drop n) with
      | none => none
      | some (out, rest) => some (n, out, rest)

end generate

/-! ## §5  relocation to the source (astropy's formulas) -/

section relocate
variable {F : Type} [Add F] [Sub F] [Mul F] [Div F] [Neg F] [LT F] [DecidableLT F]
  [OfNat F 1] [OfNat F 2] [OfScientific F] [Transc F] [Atan2 F]
open Transc

/-- `astropy.coordinates.angles.utils.position_angle` (before wrapping) -/
def posAngle (lon1 lat1 lon2 lat2 : F) : F :=
  let dl := lon2 - lon1
  let colat := cos lat2
  let x := sin lat2 * cos lat1 - colat * sin lat1 * cos dl
  let y := sin dl * colat
  Atan2.atan2 y x

/-- `angular_separation` (Vincenty) -/
def sepVincenty (lon1 lat1 lon2 lat2 : F) : F :=
  let sdlon := sin (lon2 - lon1)
  let cdlon := cos (lon2 - lon1)
  let slat1 := sin lat1
  let slat2 := sin lat2
  let clat1 := cos lat1
  let clat2 := cos lat2
  let num1 := clat2 * sdlon
  let num2 := clat1 * slat2 - slat1 * clat2 * cdlon
  let den := slat1 * slat2 + clat1 * clat2 * cdlon
  Atan2.atan2 (sqrt (num1 * num1 + num2 * num2)) den

/-- `offset_by(lon, lat, posang, distance)` (longitude not wrapped) -/
def offsetBy (lon lat posang dist : F) : F × F :=
  let cos_a := cos dist
  let sin_a := sin dist
  let cos_c := sin lat
  let sin_c := cos lat
  let cos_B := cos posang
  let sin_B := sin posang
  let cos_b := cos_c * cos_a + sin_c * sin_a * cos_B
  let xsin_A := sin_a * sin_B * sin_c
  let xcos_A := cos_a - cos_b * cos_c
  let A := if sin_c < 1e-12 then pi / 2 + cos_c * (pi / 2 - posang) else Atan2.atan2 xsin_A xcos_A
  (lon + A, asin cos_b)

/-- `rotate_signal_events_on_sphere` for one event -/
def relocate (srcRa srcDec tRa tDec rRa rDec : F) : F × F :=
  offsetBy srcRa srcDec (posAngle tRa tDec rRa rDec) (sepVincenty tRa tDec rRa rDec)

/-- cosine of the great-circle distance -/
def cosSep (lon1 lat1 lon2 lat2 : F) : F :=
  sin lat1 * sin lat2 + cos lat1 * cos lat2 * cos (lon2 - lon1)

end relocate


/-! ### post-sampling processing and validity on the event data (`signal_event_post_sampling_processing`,
`_get_invalid_events_mask` evaluated on the relocated event) -/

structure Dir (F : Type) where
  tRa : F
  tDec : F
  rRa : F
  rDec : F

/-- what the two functions look at -/
structure EvData (F : Type) where
  /-- (group, source) ↦ (ra, dec) of the source -/
  src : Nat → Nat → Option (F × F)
  /-- (dataset, event) ↦ true and reconstructed direction -/
  dir : Nat → Nat → Option (Dir F)
  /-- (dataset, event, field id) ↦ value of a field that relocation does not touch -/
  oth : Nat → Nat → Nat → Option F

inductive Fld where
  | ra
  | dec
  | sinDec
  | other (k : Nat)

section events
variable {F : Type} [Add F] [Sub F] [Mul F] [Div F] [Neg F] [LT F] [DecidableLT F]
  [OfNat F 1] [OfNat F 2] [OfScientific F] [Transc F] [Atan2 F]

/-- (ra, dec, sin_dec) of a candidate after it has been moved to its source -/
def postProc (D : EvData F) (c : Cand) : Option (F × F × F) :=
  match D.src c.shg c.src, D.dir c.ds c.ev with
  | some s, some d =>
    let p := relocate s.1 s.2 d.tRa d.tDec d.rRa d.rDec
    some (p.1, p.2, Transc.sin p.2)
  | _, _ => none

def fieldVal (D : EvData F) (c : Cand) : Fld → Option F
  | .ra => (postProc D c).map (·.1)
  | .dec => (postProc D c).map (·.2.1)
  | .sinDec => (postProc D c).map (·.2.2)
  | .other k => D.oth c.ds c.ev k

/-- (value, lo, hi) of every configured range; `none` = a field does not exist (KeyError) -/
def rangeVals (D : EvData F) (c : Cand) : List (Nat × Fld × F × F) → Option (List (F × F × F))
  | [] => some []
  | e :: rest =>
    match fieldVal D c e.2.1, rangeVals D c rest with
    | some v, some vs => some ((v, e.2.2.1, e.2.2.2) :: vs)
    | _, _ => none

/-- validity bit of table row `r`: the ranges `(dataset, field, lo, hi)` of the row's dataset, evaluated on the
relocated event (a missing row / field counts as invalid here; the theorems assume they exist) -/
def validRel (D : EvData F) (cands : List Cand) (rs : List (Nat × Fld × F × F)) (r : Nat) : Bool :=
  match cands[r]? with
  | none => false
  | some c =>
    match rangeVals D c (rs.filter (fun e => e.1 == c.ds)) with
    | none => false
    | some vs => !invalidMask vs

def relocRows (D : EvData F) : List (Nat × Cand) → Option (List ((Nat × Cand) × F × F × F))
  | [] => some []
  | rc :: rest =>
    match postProc D rc.2, relocRows D rest with
    | some p, some ps => some ((rc, p) :: ps)
    | _, _ => none

def relocDss (D : EvData F) : List (Nat × List (Nat × Cand)) → Option (List (Nat × List ((Nat × Cand) × F × F × F)))
  | [] => some []
  | e :: rest =>
    match relocRows D e.2, relocDss D rest with
    | some p, some ps => some ((e.1, p) :: ps)
    | _, _ => none

end events

section eventsGen
variable {F : Type} [Add F] [Sub F] [Mul F] [Div F] [Neg F] [LE F] [DecidableLE F] [LT F] [DecidableLT F]
  [OfNat F 0] [OfNat F 1] [OfNat F 2] [OfScientific F] [Transc F] [Atan2 F]

/-- the complete MC generator: draw, redraw on the validity of the *relocated* events, buffers, and the events
handed out with their relocated coordinates -/
def generateEv (right : Bool) (cands : List Cand) (cdf : List F) (D : EvData F) (rs : List (Nat × Fld × F × F))
    (n : Nat) (us : List F) : Option (Nat × List (Nat × List ((Nat × Cand) × F × F × F)) × List F) :=
  match generateBuf right cands cdf (validRel D cands rs) n us with
  | none => none
  | some (k, out, rest) =>
    match relocDss D out with
    | none => none
    | some o => some (k, o, rest)

end eventsGen

/-! ## §6  mean number of signal events → flux -/

section mu2flux
variable {F : Type} [Add F] [Mul F] [Div F] [OfNat F 0]

/-- `np.sum(sig_candidates[mask]['weight'])` for source `k` of group `g` -/
def srcShare (tab : List (Cand × F)) (g k : Nat) : F :=
  sumSeq ((tab.filter (fun c => c.1.shg == g && c.1.src == k)).map (·.2))

/-- flux of one source: `(mu / ref_N) * (ref_N_k / ref_N) * Phi0 * unit`, `ref_N_k = share * ref_N` -/
def mu2fluxK (mu refN share phi unit : F) : F := (mu / refN) * ((share * refN) / refN) * phi * unit

/-- per source; `srcs` = (share, Phi0, unit) of every source in manager order -/
def mu2fluxPer (mu refN : F) (srcs : List (F × F × F)) : List F :=
  srcs.map (fun s => mu2fluxK mu refN s.1 s.2.1 s.2.2)

def mu2flux (mu refN : F) (srcs : List (F × F × F)) : F := sumSeq (mu2fluxPer mu refN srcs)

end mu2flux

end SigGen
