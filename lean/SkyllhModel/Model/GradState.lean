/-
  Model/GradState.lean — the *state* behind `calculate_ns_grad2` (property C02, anchor `_cache_nsgrad_i`):

  `ZeroSigH0SingleDatasetTCLLHRatio`
      __init__ / initialize_for_new_trial :  self._cache_nsgrad_i = None
      evaluate                            :  self._cache_nsgrad_i = None            (first statement)
                                             ... calculate_log_lambda_and_grads: self._cache_nsgrad_i = nsgrad_i
      calculate_ns_grad2(ns)              :  if self._cache_nsgrad_i is None: raise RuntimeError
                                             Nprime = tdm.n_selected_events; N = Nprime + tdm.n_pure_bkg_events
                                             -np.sum(cache**2) - (N - Nprime)/(N - ns)**2
  `MultiDatasetTCLLHRatio`
      evaluate            :  services.calculate()  (f := new dataset weight factors), then every single llh ratio is
                             evaluated at ns*f[j]
      calculate_ns_grad2  :  f = service.get_weights();  sum_j single_j.calculate_ns_grad2(ns*f[j]) * f[j]**2

  `step` returns the post-state also when the operation raises.  Core Lean only, scalar-polymorphic; executed with
  `Float` in `Driver/C02.lean` (stateful requests `hreset`, `hnew`, `heval`, `hfail`, `hgrad2`), reasoned about over ℝ
  in `Props/C02.lean`.
-/
import SkyllhModel.Scalar
import SkyllhModel.Model.LLH
import SkyllhModel.Model.Grad

namespace GradState
open LLH Grad

/-- one `ZeroSigH0SingleDatasetTCLLHRatio` with its trial data manager -/
structure Single (F : Type) where
  /-- `_cache_nsgrad_i` -/
  cache : Option (List F)
  /-- `tdm.n_events` of the current trial -/
  N : Nat
  /-- `tdm.n_selected_events` of the current trial -/
  nSel : Nat

/-- `MultiDatasetTCLLHRatio` + `DatasetSignalWeightFactorsService` -/
structure Multi (F : Type) where
  /-- `DatasetSignalWeightFactorsService._f_j` (`none` before the first `calculate`) -/
  f : Option (List F)
  singles : List (Single F)

inductive Op (F : Type) where
  /-- a new pseudo-data trial: `initialize_trial` of every trial data manager (new `N`, `n_selected_events`) and
  `initialize_for_new_trial` of every llh ratio -/
  | newTrial (sizes : List (Nat × Nat))
  /-- a successful `evaluate` at `ns` whose services computed the dataset weight factors `f` and whose datasets
  have the event values `Xs` -/
  | evaluate (ns : F) (f : List F) (Xs : List (List F))
  /-- an `evaluate` that raises inside the first single llh ratio after the services were updated (e.g. a PDF ratio
  raising): that llh ratio has forgotten its cache (`self._cache_nsgrad_i = None` is the first statement of
  `evaluate`), the later ones were not entered and keep theirs -/
  | evaluateFail (f : List F)
  /-- `calculate_ns_grad2(ns)` -/
  | grad2 (ns : F)

inductive Err where
  | noWeights     -- `f` is `None`
  | notEvaluated  -- RuntimeError of a single llh ratio
deriving DecidableEq, Repr

section
variable {F : Type} [Add F] [Sub F] [Mul F] [Div F] [Neg F] [LT F] [DecidableLT F]
  [OfNat F 0] [OfNat F 1] [OfScientific F] [Transc F]

def init (J : Nat) : Multi F := { f := none, singles := List.replicate J { cache := none, N := 0, nSel := 0 } }

/-- `ZeroSigH0SingleDatasetTCLLHRatio.calculate_ns_grad2` -/
def Single.grad2 (s : Single F) (ns : F) : Except Err F :=
  match s.cache with
  | none => .error .notEvaluated
  | some c => .ok (-sumF (c.map (fun x => x * x)) - bkgGrad2 s.N s.nSel ns)

/-- the loop of `MultiDatasetTCLLHRatio.calculate_ns_grad2` over `zip(f, llhratio_list)`, accumulating
`nsgrad2j[j] * f[j]**2`; the first single that raises ends it -/
def grad2Loop (ns : F) : List (F × Single F) → Except Err (List F)
  | [] => .ok []
  | (fj, s) :: rest =>
      match s.grad2 (ns * fj) with
      | .error e => .error e
      | .ok g => match grad2Loop ns rest with
          | .error e => .error e
          | .ok gs => .ok (g * (fj * fj) :: gs)

def Multi.grad2 (m : Multi F) (ns : F) : Except Err F :=
  match m.f with
  | none => .error .noWeights
  | some f => match grad2Loop ns (List.zip f m.singles) with
      | .error e => .error e
      | .ok gs => .ok (sumF gs)

/-- one operation: post-state and result (`none`: the operation returns nothing the model tracks) -/
def step (opa : F) (m : Multi F) : Op F → Multi F × Except Err (Option F)
  | .newTrial sizes =>
      ({ m with singles := sizes.map (fun s => { cache := none, N := s.1, nSel := s.2 }) }, .ok none)
  | .evaluate ns f Xs =>
      ({ f := some f
         singles := List.zipWith (fun (fs : F × Single F) (X : List F) =>
             { fs.2 with cache := some (X.map (nsGradI opa (ns * fs.1))) }) (List.zip f m.singles) Xs },
       .ok none)
  | .evaluateFail f =>
      ({ f := some f
         singles := match m.singles with
           | [] => []
           | s :: rest => { s with cache := none } :: rest },
       .error .notEvaluated)
  | .grad2 ns =>
      (m, match m.grad2 ns with
          | .error e => .error e
          | .ok g => .ok (some g))

def run (opa : F) (m : Multi F) (ops : List (Op F)) : Multi F := ops.foldl (fun s op => (step opa s op).1) m

end

end GradState
