/-
  Model of skyllh/core/livetime.py (class `Livetime`) — property C14.

  Up-time intervals are a list of pairs `(start, stop)`; `flat` is the code's
  `_get_onoff_intervals` (reshape to 1-d).  `digitize` is `numpy.digitize(x, bins)` for
  non-decreasing `bins` (`right=False`): the number of bin edges `≤ x`.

  Everything is written against `LE`/`LT` (+ `Add`/`Sub` where the code does arithmetic) so that
  the same definitions run on `Float` in the driver and are reasoned about over any linear order
  / ordered field in `Props/C14.lean`.
-/

namespace Livetime

variable {F : Type}

def flat (ivs : List (F × F)) : List F := ivs.flatMap (fun p => [p.1, p.2])

section order
variable [LE F] [DecidableLE F]

/-- `numpy.digitize(t, edges)` for non-decreasing `edges`. -/
def digitize (edges : List F) (t : F) : Nat := edges.countP (fun e => decide (e ≤ t))

/-- `Livetime.is_on`: odd on/off index = on-time. -/
def isOn (ivs : List (F × F)) (t : F) : Bool := digitize (flat ivs) t % 2 == 1

/-- pair up a flat edge list again (`np.reshape(flat, (N,2))`) -/
def unflat : List F → List (F × F)
  | a :: b :: rest => (a, b) :: unflat rest
  | _ => []

/--
`Livetime.get_uptime_intervals_between(t_start, t_end)` — the index arithmetic as coded
(including the early return for "no on-time inside the window"), as a function of the flat
edge array and the two `digitize` results `s`, `e`.
`none` stands for an `IndexError` of the Python code.
-/
def adjS (s : Nat) : Nat := if s % 2 = 0 then s else s - 1
def adjE (e : Nat) : Nat := if e % 2 = 0 then e else e + 1

def betweenCore (edges : List F) (s e : Nat) (t0 t1 : F) : Option (List (F × F)) :=
  -- t_start_idx / t_end_idx after the parity adjustment (both even)
  if adjE e ≤ adjS s then some []
  else
    -- s even: t_start is during off-time, use the next on-time lower edge; e even: t_end is during
    -- off-time, use the previous on-time upper edge
    match (if s % 2 = 0 then edges[s]? else some t0), (if e % 2 = 0 then edges[e - 1]? else some t1) with
    | some tStart, some tEnd =>
      -- N_ontime_intervals = (eAdj - sAdj)/2; intermediate edges only if N > 1;
      -- flat[0] = tStart; flat[-1] = tEnd (for N = 1 the two assignments hit a 2-element array)
      let mid := if (adjE e - adjS s) / 2 > 1
        then (edges.drop (adjS s + 1)).take (adjE e - 1 - (adjS s + 1)) else []
      some (unflat ([tStart] ++ mid ++ [tEnd]))
    | _, _ => none

end order

section order2
variable [LE F] [LT F] [DecidableLE F] [DecidableLT F]

/-- `numpy.digitize(t, edges, right=True)` for non-decreasing `edges`: the number of edges `< t`. -/
def digitizeR (edges : List F) (t : F) : Nat := edges.countP (fun e => decide (e < t))

/-- `Livetime.get_uptime_intervals_between(t_start, t_end)`: an empty (or reversed) time range has
no on-time; the lower bound is located with `digitize` (edges `≤ t_start`), the excluded upper
bound with `digitize(right=True)` (edges `< t_end`). -/
def betweenIdx (ivs : List (F × F)) (t0 t1 : F) : Option (List (F × F)) :=
  if t1 ≤ t0 then some []
  else betweenCore (flat ivs) (digitize (flat ivs) t0) (digitizeR (flat ivs) t1) t0 t1

end order2

section spec
variable [LE F] [LT F] [DecidableLE F] [DecidableLT F]

/-- Specification-level form of the same query: keep the intervals that meet the window and
clip the outer edges.  `Props/C14` proves this is the set intersection; the correspondence
check compares it (and `betweenIdx`) with the implementation bit by bit. -/
def betweenSpec (ivs : List (F × F)) (t0 t1 : F) : List (F × F) :=
  (ivs.filter (fun p => decide (t0 < p.2) && decide (p.1 < t1))).map
    (fun p => ((if p.1 ≤ t0 then t0 else p.1), (if t1 < p.2 then t1 else p.2)))

end spec

section arith
variable [LE F] [DecidableLE F] [Add F] [Sub F] [OfNat F 0]

/-- `np.append([0], np.cumsum(np.diff(intervals)))` — sequential cumulative sum. -/
def cumOntime (ivs : List (F × F)) : List F :=
  let rec go (acc : F) : List (F × F) → List F
    | [] => []
    | p :: rest => let acc' := acc + (p.2 - p.1); acc' :: go acc' rest
  (0 : F) :: go 0 ivs

/-- `Livetime.get_livetime_upto(mjd)` for a scalar argument (`none` = IndexError). -/
def upto (ivs : List (F × F)) (t : F) : Option F :=
  let edges := flat ivs
  let cum := cumOntime ivs
  let idx := digitize edges t
  if idx % 2 == 1 then
    match cum[(idx - 1) / 2]?, edges[idx - 1]? with
    | some c, some lo => some (c + t - lo)
    | _, _ => none
  else cum[idx / 2]?

/-- total live time as the last cumulative value (exact-arithmetic meaning of
`np.sum(np.diff(intervals))`) -/
def livetimeSeq (ivs : List (F × F)) : F := (cumOntime ivs).getLast?.getD 0

variable [Mul F]

/-- `Livetime.draw_ontimes` for one uniform deviate `u ∈ [0,1)` on the (already restricted)
interval list. -/
def drawOn (ivs : List (F × F)) (u : F) : Option F :=
  let cum := cumOntime ivs
  let L := cum.getLast?.getD 0
  let w := u * L
  let idx := digitize cum w
  match cum[idx - 1]?, ivs[idx - 1]? with
  | some c, some p => if idx == 0 then none else some (p.1 + (w - c))
  | _, _ => none

end arith

/-- `get_data_subset`: the event mask `t_start ≤ time < t_stop`. -/
def subsetMask [LE F] [LT F] [DecidableLE F] [DecidableLT F] (times : List F) (t0 t1 : F) : List Bool :=
  times.map (fun t => decide (t0 ≤ t) && decide (t < t1))

/-- `assert_mjd_intervals_integrity`: edges monotonically non-decreasing. -/
def integrity [LE F] [DecidableLE F] : List F → Bool
  | a :: b :: rest => decide (a ≤ b) && integrity (b :: rest)
  | _ => true

end Livetime

/-! ### The `Livetime` object: the interval array can be replaced through the public setter
(which validates first and keeps the old array when it rejects); every query reads the array the
object currently holds (the class keeps no derived state).  Plus the two composite queries
`draw_ontimes(t_min, t_max)` and `get_data_subset`. -/
namespace Livetime

inductive Op (F : Type) where
  | setIvs (ivs : List (F × F))        -- `lt.uptime_mjd_intervals_arr = arr`
  | qIsOn (t : F)
  | qBetween (t0 t1 : F)
  | qUpto (t : F)
  | qDraw (tmin tmax : Option F) (u : F)

inductive Ans (F : Type) where
  | none
  | err                                  -- the setter raised `ValueError`, state unchanged
  | bool (b : Bool)
  | ivs (r : Option (List (F × F)))
  | val (x : Option F)

variable {F : Type} [LE F] [LT F] [DecidableLE F] [DecidableLT F] [Add F] [Sub F] [Mul F] [OfNat F 0]

/-- `draw_ontimes(rss, size, t_min, t_max)` for one deviate: without bounds the inverse CDF over the
whole live time; otherwise a missing bound defaults to `time_start` / `time_stop`, the intervals are
restricted with `get_uptime_intervals_between` and the inverse CDF runs on the result. -/
def drawWin (ivs : List (F × F)) (tmin tmax : Option F) (u : F) : Option F :=
  match tmin, tmax with
  | none, none => drawOn ivs u
  | _, _ =>
    match ivs.head?, ivs.getLast? with
    | some f, some l =>
      match betweenIdx ivs (tmin.getD f.1) (tmax.getD l.2) with
      | some r => drawOn r u
      | none => none
    | _, _ => none            -- `time_start` of a Livetime without intervals: IndexError

/-- `get_data_subset`: event mask, window-restricted intervals (which the `Livetime` constructor
validates again), and their integrated live time. `none` = an exception. -/
def dataSubset (ivs : List (F × F)) (times : List F) (t0 t1 : F) :
    Option (List Bool × List (F × F) × F) :=
  match betweenIdx ivs t0 t1 with
  | none => none
  | some r => if integrity (flat r) then some (subsetMask times t0 t1, r, livetimeSeq r) else none

/-- the stateless answer to a query on a given interval list -/
def answer (ivs : List (F × F)) : Op F → Ans F
  | .setIvs _ => .none
  | .qIsOn t => .bool (isOn ivs t)
  | .qBetween t0 t1 => .ivs (betweenIdx ivs t0 t1)
  | .qUpto t => .val (upto ivs t)
  | .qDraw tmin tmax u => .val (drawWin ivs tmin tmax u)

/-- one call on the object: the state is the interval list it holds -/
def objStep (held : List (F × F)) (op : Op F) : List (F × F) × Ans F :=
  match op with
  | .setIvs ivs => if integrity (flat ivs) then (ivs, .none) else (held, .err)
  | q => (held, answer held q)

def objRun (held : List (F × F)) : List (Op F) → List (F × F) × List (Ans F)
  | [] => (held, [])
  | op :: ops =>
    let (h', a) := objStep held op
    let (h'', as) := objRun h' ops
    (h'', a :: as)

/-- the interval list in force after a history: the last *accepted* one, else the initial one -/
def lastSet (held : List (F × F)) : List (Op F) → List (F × F)
  | [] => held
  | .setIvs ivs :: ops => lastSet (if integrity (flat ivs) then ivs else held) ops
  | _ :: ops => lastSet held ops

end Livetime

/-! ### Good-run-list glue: `clip_grl_start_times` (skyllh/analyses/i3/publicdata_ps/utils.py),
`I3Livetime.from_grl_data` (skyllh/i3/livetime.py) and the time generator pass-through
(`skyllh/core/times.py`). -/
namespace Livetime

variable {F : Type}

/-- `clip_grl_start_times` with the stop time of the previous run as a parameter:
`new_start = where(start[1:] - stop[:-1] < 0, stop[:-1], start[1:])`; stop times are not touched, so the
vectorised numpy expression and this left-to-right recursion read the same `stop[:-1]`.
(`start - prev < 0` and `start < prev` agree on IEEE doubles, NaN and ±inf included; the correspondence
check compares bit by bit.) -/
def clipFrom [LT F] [DecidableLT F] (prev : F) : List (F × F) → List (F × F)
  | [] => []
  | p :: rest => ((if p.1 < prev then prev else p.1), p.2) :: clipFrom p.2 rest

/-- `clip_grl_start_times(grl_data)`: the first run keeps its start time. -/
def clipStarts [LT F] [DecidableLT F] : List (F × F) → List (F × F)
  | [] => []
  | p :: rest => p :: clipFrom p.2 rest

/-- `I3Livetime.from_grl_data`: `hstack` of the start and the stop column, then the validating
constructor (`none` = `ValueError`). -/
def fromGrl [LE F] [DecidableLE F] (starts stops : List F) : Option (List (F × F)) :=
  let ivs := starts.zip stops
  if integrity (flat ivs) then some ivs else none

/-- the analysis' sequence `clip_grl_start_times(grl); I3Livetime.from_grl_data(grl)` -/
def grlLivetime [LE F] [LT F] [DecidableLE F] [DecidableLT F] (runs : List (F × F)) : Option (List (F × F)) :=
  let c := clipStarts runs
  fromGrl (c.map Prod.fst) (c.map Prod.snd)

/-- `TimeGenerator(LivetimeTimeGenerationMethod(livetime)).generate_times(rss, size, **kwargs)` for one
deviate: both layers hand `rss`, `size` and the keyword arguments through to `Livetime.draw_ontimes`. -/
def generateTime [LE F] [LT F] [DecidableLE F] [DecidableLT F] [Add F] [Sub F] [Mul F] [OfNat F 0]
    (ivs : List (F × F)) (tmin tmax : Option F) (u : F) : Option F :=
  drawWin ivs tmin tmax u

end Livetime
