/-
  Model of the collection / keyed-lookup / configuration code of skyllh — property C20.

    skyllh/core/py.py          ObjectCollection, NamedObjectCollection, make_dict_hash
    skyllh/core/pdf.py         PDFSet.add_pdf / get_pdf / __contains__
    skyllh/core/datafields.py  DataFieldStages.and_check / or_check, DataFields.get_joint_names
    skyllh/core/config.py      Config.__init__ / from_dict and the mutators

  Core Lean only.  Python object identity is modelled by *location numbers*: two fields carrying the
  same location are the same Python object, and an in-place mutation is applied to every holder of
  that location ("world" semantics).  The specification forms (`specStep`, `cspecStep`) let every
  collection / configuration evolve on its own; `Props/C20.lean` proves that the world semantics
  refines them, i.e. that nothing is shared.
-/

namespace Coll

/-! ## Python `dict` / `OrderedDict`: association list in insertion order -/

section OD
variable {K V : Type} [DecidableEq K]

/-- `d[k] = v`: replace the value of an existing key in place, else append. -/
def odSet : List (K × V) → K → V → List (K × V)
  | [], k, v => [(k, v)]
  | (k', v') :: t, k, v => if k' = k then (k', v) :: t else (k', v') :: odSet t k v

/-- `d.get(k)` -/
def odGet : List (K × V) → K → Option V
  | [], _ => none
  | (k', v') :: t, k => if k' = k then some v' else odGet t k

/-- `d.update(e)` (also `OrderedDict(list_of_pairs)` with `d = []`) -/
def odUpdate (d e : List (K × V)) : List (K × V) := e.foldl (fun acc p => odSet acc p.1 p.2) d

def odOfPairs (ps : List (K × V)) : List (K × V) := odUpdate [] ps

def odKeys (d : List (K × V)) : List K := d.map Prod.fst

end OD

/-! ## ObjectCollection / NamedObjectCollection -/

/-- an object of a collection: Python identity `id`, its `name` attribute and its class `ty`. -/
structure Obj (N : Type) where
  id : Nat
  name : N
  ty : Nat
deriving DecidableEq, Repr

/-- one `NamedObjectCollection` instance.  `oloc` / `iloc` are the identities of the `_objects`
list and of the `_obj_name_to_idx` dictionary. -/
structure C (N : Type) where
  oloc : Nat
  iloc : Nat
  ty : Nat
  objects : List (Obj N)
  idx : List (N × Nat)
deriving Repr

structure World (N : Type) where
  next : Nat
  colls : List (C N)

inductive Err | typeError | keyError | indexError | valueError | badTarget
deriving DecidableEq, Repr

inductive Out (N : Type) | unit | obj (o : Obj N) | coll (j : Nat)
deriving DecidableEq, Repr

/-- operations on collection number `j` of the world -/
inductive Op (N : Type)
  | addObj (j : Nat) (o : Obj N)            -- `c.add(o)`, `c += o`
  | addColl (j k : Nat)                      -- `c_j.add(c_k)`, `c_j += c_k`
  | addSeq (j : Nat) (os : List (Obj N))     -- `c.add([o1, o2, ...])`
  | pop (j : Nat) (i : Option Int)           -- `c.pop()`, `c.pop(i)` (`int`, `bool`, numpy integer)
  | popName (j : Nat) (n : N)                -- `c.pop('name')`
  | popBad (j : Nat)                         -- `c.pop(1.5)`: neither `str` nor an integer index
  | plusObj (j : Nat) (o : Obj N)            -- `c + o`      (new collection appended to the world)
  | plusColl (j k : Nat)                     -- `c_j + c_k`
  | plusSeq (j : Nat) (os : List (Obj N))    -- `c + [o1, ...]`

/-- the class hierarchy of the stored objects: `sub a b` = `issubclass(a, b)` (`isinstance(o, b)` =
`sub o.ty b`).  Theorems assume nothing about it. -/
class TyRel where
  sub : Nat → Nat → Bool

section named
variable {N : Type} [DecidableEq N] [TyRel]

/-- `[(o.name, start+idx) for (idx, o) in enumerate(objs)]` -/
def namePairs : Nat → List (Obj N) → List (N × Nat)
  | _, [] => []
  | n, o :: t => (o.name, n) :: namePairs (n + 1) t

/-- `NamedObjectCollection._create_obj_name_to_idx_dict(start)` -/
def createIdx (objs : List (Obj N)) (start : Nat) : List (N × Nat) :=
  odOfPairs (namePairs start (objs.drop start))

/-- the primitive mutations the methods perform once their argument checks have passed -/
inductive Act (N : Type)
  | extend (j : Nat) (xs : List (Obj N))
  | erase (j i : Nat)
  | copyExtend (j : Nat) (xs : List (Obj N))

/-- what `ObjectCollection.add` accepts: a single instance of the collection's type -/
def checkObj (ty : Nat) (o : Obj N) : Except Err (List (Obj N)) :=
  if TyRel.sub o.ty ty then .ok [o] else .error .typeError

/-- `add(sequence)`: the sequence is first wrapped by `ObjectCollection(seq)`, whose object type is
the type of the first element (an empty list gives the type `list`, which is never accepted): every
element must be an instance of that type, and that type a subclass of the collection's type. -/
def checkSeq (ty : Nat) : List (Obj N) → Except Err (List (Obj N))
  | [] => .error .typeError
  | o :: t => if (o :: t).all (fun x => TyRel.sub x.ty o.ty) ∧ TyRel.sub o.ty ty then .ok (o :: t)
      else .error .typeError

/-- `list.pop(i)` index normalisation; `none` = IndexError -/
def normIdx (len : Nat) (i : Int) : Option Nat :=
  let j := if i < 0 then i + len else i
  if 0 ≤ j ∧ j < len then some j.toNat else none

/-- Argument checks of an operation, in the order of the code, as a function of what the methods
read: type and objects of the collections (`view`) and the name → index lookup. -/
def plan (view : List (Nat × List (Obj N))) (lookup : Nat → N → Option Nat) :
    Op N → Except Err (Act N)
  | .addObj j o => match view[j]? with
      | none => .error .badTarget
      | some (ty, _) => (checkObj ty o).map (Act.extend j)
  | .addColl j k => match view[j]?, view[k]? with
      | some (ty, _), some (ty', xs) => if TyRel.sub ty' ty then .ok (.extend j xs) else .error .typeError
      | _, _ => .error .badTarget
  | .addSeq j os => match view[j]? with
      | none => .error .badTarget
      | some (ty, _) => (checkSeq ty os).map (Act.extend j)
  | .pop j i => match view[j]? with
      | none => .error .badTarget
      | some (_, objs) =>
          match normIdx objs.length (i.getD ((objs.length : Int) - 1)) with
          | none => .error .indexError
          | some p => .ok (.erase j p)
  | .popName j n => match view[j]? with
      | none => .error .badTarget
      | some (_, objs) => match lookup j n with
          | none => .error .keyError
          | some p => if p < objs.length then .ok (.erase j p) else .error .indexError
  | .popBad j => match view[j]? with
      | none => .error .badTarget
      | some _ => .error .typeError
  | .plusObj j o => match view[j]? with
      | none => .error .badTarget
      | some (ty, _) => (checkObj ty o).map (Act.copyExtend j)
  | .plusColl j k => match view[j]?, view[k]? with
      | some (ty, _), some (ty', xs) => if TyRel.sub ty' ty then .ok (.copyExtend j xs) else .error .typeError
      | _, _ => .error .badTarget
  | .plusSeq j os => match view[j]? with
      | none => .error .badTarget
      | some (ty, _) => (checkSeq ty os).map (Act.copyExtend j)

/-- in-place mutation of the list object `l`: every collection holding it sees the new content -/
def setObjects (cs : List (C N)) (l : Nat) (objs : List (Obj N)) : List (C N) :=
  cs.map fun c => if c.oloc = l then { c with objects := objs } else c

/-- in-place mutation of the dictionary object `l` -/
def setIdxAt (cs : List (C N)) (l : Nat) (d : List (N × Nat)) : List (C N) :=
  cs.map fun c => if c.iloc = l then { c with idx := d } else c

/-- `NamedObjectCollection.add` after the checks: `self._objects.extend(xs)` then
`self._obj_name_to_idx.update(self._create_obj_name_to_idx_dict(n_objs))`. -/
def extendAt (cs : List (C N)) (c : C N) (xs : List (Obj N)) : List (C N) :=
  let objs' := c.objects ++ xs
  setIdxAt (setObjects cs c.oloc objs') c.iloc (odUpdate c.idx (createIdx objs' c.objects.length))

/-- `NamedObjectCollection.pop` after the checks: `self._objects.pop(i)` then
`self._obj_name_to_idx = self._create_obj_name_to_idx_dict()` (a *new* dictionary). -/
def eraseAt (w : World N) (j : Nat) (c : C N) (i : Nat) : World N :=
  let objs' := c.objects.eraseIdx i
  { next := w.next + 1,
    colls := (setObjects w.colls c.oloc objs').set j
      { c with objects := objs', iloc := w.next, idx := createIdx objs' 0 } }

/-- `copy()` of the fixed code: same class and type, own list, own dictionary, same objects. -/
def copyOf (n : Nat) (c : C N) : C N :=
  { oloc := n, iloc := n + 1, ty := c.ty, objects := c.objects, idx := c.idx }

/-- negative model (seeded change M4): the copy keeps the *same* name-index dictionary -/
def copyShareIdx (n : Nat) (c : C N) : C N := { copyOf n c with iloc := c.iloc }

/-- negative model (seeded change M5): the copy keeps the *same* object list -/
def copyShareList (n : Nat) (c : C N) : C N := { copyOf n c with oloc := c.oloc }

/-- negative model: `copy.copy(self)` alone — list and dictionary both shared -/
def copyShareBoth (n : Nat) (c : C N) : C N := { copyOf n c with oloc := c.oloc, iloc := c.iloc }

/-- the primitive mutations, with the `copy()` used by `+` as a parameter `cp` -/
def applyActWith (cp : Nat → C N → C N) (w : World N) : Act N → World N × Except Err (Out N)
  | .extend j xs => match w.colls[j]? with
      | none => (w, .error .badTarget)
      | some c => ({ w with colls := extendAt w.colls c xs }, .ok .unit)
  | .erase j i => match w.colls[j]? with
      | none => (w, .error .badTarget)
      | some c => match c.objects[i]? with
          | none => (w, .error .indexError)
          | some o => (eraseAt w j c i, .ok (.obj o))
  | .copyExtend j xs => match w.colls[j]? with
      | none => (w, .error .badTarget)
      | some c =>
          let c' := cp w.next c
          ({ next := w.next + 2, colls := extendAt (w.colls ++ [c']) c' xs }, .ok (.coll w.colls.length))

/-- the current code: `copy()` allocates a new list and a new dictionary -/
def applyAct (w : World N) (a : Act N) : World N × Except Err (Out N) := applyActWith copyOf w a

def view (w : World N) : List (Nat × List (Obj N)) := w.colls.map fun c => (c.ty, c.objects)

def lookupIdx (w : World N) (j : Nat) (n : N) : Option Nat :=
  match w.colls[j]? with
  | none => none
  | some c => odGet c.idx n

/-- one method call on the world (post-state returned also when the call raises) -/
def stepWith (cp : Nat → C N → C N) (w : World N) (op : Op N) : World N × Except Err (Out N) :=
  match plan (view w) (lookupIdx w) op with
  | .error e => (w, .error e)
  | .ok a => applyActWith cp w a

def runWith (cp : Nat → C N → C N) (w : World N) : List (Op N) → World N
  | [] => w
  | op :: ops => runWith cp (stepWith cp w op).1 ops

def step (w : World N) (op : Op N) : World N × Except Err (Out N) := stepWith copyOf w op

def run (w : World N) (ops : List (Op N)) : World N := runWith copyOf w ops

/-- the constructor `NamedObjectCollection(obj_type=ty)` -/
def newColl (w : World N) (ty : Nat) : World N :=
  { next := w.next + 2, colls := w.colls ++ [{ oloc := w.next, iloc := w.next + 1, ty := ty, objects := [], idx := [] }] }

/-! ### constructor `NamedObjectCollection(objs=None, obj_type=None)` -/

/-- the `objs` argument -/
inductive CtorArg (N : Type) | none | single (o : Obj N) | seq (os : List (Obj N))

/-- `obj_type` after the inference of `ObjectCollection.__init__`; `none` stands for `object` /
`list` (no objects to take the type from), which have no attribute `name`. -/
def ctorType (ty : Option Nat) (arg : CtorArg N) : Option Nat :=
  match ty, arg with
  | some t, _ => some t
  | .none, .single o => some o.ty
  | .none, .seq (o :: _) => some o.ty
  | .none, _ => .none

def ctorObjs : CtorArg N → List (Obj N)
  | .none => []
  | .single o => [o]
  | .seq os => os

/-- `for obj in objs: self.add(obj)` on the collection under construction (number `j`) -/
def addEach (w : World N) (j : Nat) : List (Obj N) → Except Err (World N)
  | [] => .ok w
  | o :: t => match (stepWith copyOf w (.addObj j o)) with
      | (w', .ok _) => addEach w' j t
      | (_, .error e) => .error e

/-- the constructor: the type is settled, the objects are added one by one (`TypeError` for a
foreign one), then the type must have a `name` attribute (`hasName`).  A raising constructor
leaves no collection behind. -/
def mkNamed (hasName : Nat → Bool) (w : World N) (ty : Option Nat) (arg : CtorArg N) : Except Err (World N) :=
  match ctorType ty arg with
  | .none => .error .typeError
  | some t => match addEach (newColl w t) w.colls.length (ctorObjs arg) with
      | .error e => .error e
      | .ok w' => if hasName t then .ok w' else .error .typeError

/-! ### accessors -/

def nameList (c : C N) : List N := odKeys c.idx
def getIndexByName (c : C N) (n : N) : Except Err Nat :=
  match odGet c.idx n with | none => .error .keyError | some i => .ok i
def getItemIdx (c : C N) (i : Int) : Except Err (Obj N) :=
  match normIdx c.objects.length i with
  | none => .error .indexError
  | some p => match c.objects[p]? with | none => .error .indexError | some o => .ok o
def getItemName (c : C N) (n : N) : Except Err (Obj N) :=
  match getIndexByName c n with
  | .error e => .error e
  | .ok i => match c.objects[i]? with | none => .error .indexError | some o => .ok o
def containsName (c : C N) (n : N) : Bool := (odGet c.idx n).isSome

/-- `len(c)` -/
def len (c : C N) : Nat := c.objects.length

/-- `c.index(obj)`: first position of the object (`ValueError` when it is not stored) -/
def indexOf (c : C N) (o : Obj N) : Except Err Nat :=
  match c.objects.findIdx? (fun x => x.id == o.id) with
  | none => .error .valueError
  | some i => .ok i

/-- the key of `c[key]`: `isinstance(key, str)` decides between lookup by name and by position -/
inductive Key (N : Type) | name (n : N) | idx (i : Int)

/-- `NamedObjectCollection.__getitem__` -/
def getItem (c : C N) : Key N → Except Err (Obj N)
  | .name n => getItemName c n
  | .idx i => getItemIdx c i

/-! ### specification: every collection is a plain list of its own -/

/-- position of the last object called `n` -/
def lastIdxFrom : Nat → List (Obj N) → N → Option Nat
  | _, [], _ => none
  | p, o :: t, n => match lastIdxFrom (p + 1) t n with
      | some q => some q
      | none => if o.name = n then some p else none

def specLookup (s : List (Nat × List (Obj N))) (j : Nat) (n : N) : Option Nat :=
  match s[j]? with
  | none => none
  | some (_, objs) => lastIdxFrom 0 objs n

def specApply (s : List (Nat × List (Obj N))) : Act N → List (Nat × List (Obj N)) × Except Err (Out N)
  | .extend j xs => match s[j]? with
      | none => (s, .error .badTarget)
      | some (ty, objs) => (s.set j (ty, objs ++ xs), .ok .unit)
  | .erase j i => match s[j]? with
      | none => (s, .error .badTarget)
      | some (ty, objs) => match objs[i]? with
          | none => (s, .error .indexError)
          | some o => (s.set j (ty, objs.eraseIdx i), .ok (.obj o))
  | .copyExtend j xs => match s[j]? with
      | none => (s, .error .badTarget)
      | some (ty, objs) => (s ++ [(ty, objs ++ xs)], .ok (.coll s.length))

def specStep (s : List (Nat × List (Obj N))) (op : Op N) :
    List (Nat × List (Obj N)) × Except Err (Out N) :=
  match plan s (specLookup s) op with
  | .error e => (s, .error e)
  | .ok a => specApply s a

def specRun (s : List (Nat × List (Obj N))) : List (Op N) → List (Nat × List (Obj N))
  | [] => s
  | op :: ops => specRun (specStep s op).1 ops

/-! ### the pinned (defective) `copy`: `ObjectCollection(self._obj_type)` passes the type as `objs`,
so the copy is a collection for objects of type `type` (code `metaTy`), and `+` raises. -/

def plusOld (metaTy : Nat) (c : C N) (o : Obj N) : Except Err (List (Obj N)) :=
  (checkObj metaTy o).map (fun xs => c.objects ++ xs)

end named

/-! ## make_dict_hash and PDFSet -/

section hash
variable {K V : Type} [LE K] [DecidableLE K]

def insertItem (x : K × V) : List (K × V) → List (K × V)
  | [] => [x]
  | y :: t => if x.1 ≤ y.1 then x :: y :: t else y :: insertItem x t

/-- canonical representative of the *set* of items (`frozenset(d.items())`): items sorted by key -/
def canon (d : List (K × V)) : List (K × V) := d.foldr insertItem []

/-- fixed code: `hash(frozenset(d.items()))` — `h` is Python's `hash`, a function of the value -/
def hashKey {H : Type} (h : List (K × V) → H) (d : List (K × V)) : H := h (canon d)

/-- pinned code: `hash(tuple(d.items()))` — a function of the item *sequence* -/
def hashKeyOld {H : Type} (h : List (K × V) → H) (d : List (K × V)) : H := h d

/-- a dictionary value as `make_dict_hash` sees it -/
inductive PyVal
  | flt (bits : Nat)                      -- float / numpy floating: IEEE-754 bits of `float(v)`
  | int (i : Int) (exact : Option Nat)    -- bool / int / numpy integer; bits of `float(v)` when `float(v) == v`
  | other (code : Nat)                    -- any other hashable value (compared with `==`)
deriving DecidableEq, Repr

def isNaNBits (b : Nat) : Bool := (b / 2 ^ 52) % 2048 == 2047 && b % 2 ^ 52 != 0

/-- `(f + 0.0).hex()`: one representative for the NaNs, `-0.0 + 0.0 = 0.0`, else the exact value -/
def normBits (b : Nat) : Nat :=
  if isNaNBits b then 0x7ff8000000000000 else if b = 2 ^ 63 then 0 else b

/-- `_value_repr` of `make_dict_hash`: numbers enter with the exact representation of their float
value when that is the same number, everything else as it is -/
def normVal : PyVal → PyVal
  | .flt b => .flt (normBits b)
  | .int _ (some b) => .flt (normBits b)
  | .int i none => .int i none
  | .other c => .other c

def normItems {K : Type} (d : List (K × PyVal)) : List (K × PyVal) := d.map fun p => (p.1, normVal p.2)

/-- `make_dict_hash(d)` of the current code: `hash(frozenset((k, _value_repr(v)) for …))` -/
def gridKey {H : Type} (h : List (K × PyVal) → H) (d : List (K × PyVal)) : H := hashKey h (normItems d)

variable {H P : Type} [DecidableEq H]

/-- `PDFSet.add_pdf` on the `_gridparams_hash_pdf_dict` (`none` = KeyError "already added") -/
def addPdf (h : List (K × V) → H) (s : List (H × P)) (d : List (K × V)) (p : P) : Option (List (H × P)) :=
  match odGet s (hashKey h d) with
  | some _ => none
  | none => some (odSet s (hashKey h d) p)

/-- `PDFSet.get_pdf` (`none` = KeyError) -/
def getPdf (h : List (K × V) → H) (s : List (H × P)) (d : List (K × V)) : Option P :=
  odGet s (hashKey h d)

/-- `PDFSet.add_pdf` / `get_pdf` with grid-value dictionaries -/
def addGridPdf (h : List (K × PyVal) → H) (s : List (H × P)) (d : List (K × PyVal)) (p : P) :
    Option (List (H × P)) := addPdf h s (normItems d) p

def getGridPdf (h : List (K × PyVal) → H) (s : List (H × P)) (d : List (K × PyVal)) : Option P :=
  getPdf h s (normItems d)

/-! ### `PDFSet` with its argument checks -/

inductive PErr | typeError | keyError | valueError
deriving DecidableEq, Repr

/-- the `gridparams` / `key` argument: a dictionary, an `int` (a key made earlier), anything else -/
inductive KeyArg (K H : Type) | dict (d : List (K × PyVal)) | key (k : H) | other

/-- the `pdf` argument: a `PDF` instance with its axes (a code), or something else -/
inductive PdfArg (P : Type) | pdf (p : P) (axes : Nat) | notPdf

/-- `make_dict_hash(d)`: `None` is the empty dictionary, a non-dict raises `TypeError` -/
def makeDictHash (h : List (K × PyVal) → H) : Option (KeyArg K H) → Except PErr H
  | none => .ok (gridKey h [])
  | some (.dict d) => .ok (gridKey h d)
  | some _ => .error .typeError

/-- `PDFSet.add_pdf(pdf, gridparams)` on `_gridparams_hash_pdf_dict` (values: PDF with its axes) -/
def addPdfE (h : List (K × PyVal) → H) (s : List (H × (P × Nat))) (pdf : PdfArg P) (g : KeyArg K H) :
    Except PErr (List (H × (P × Nat))) :=
  match pdf with
  | .notPdf => .error .typeError
  | .pdf p ax => match g with
      | .dict d =>
          let k := gridKey h d
          if (odGet s k).isSome then .error .keyError
          else match s with
            | [] => .ok (odSet s k (p, ax))
            | (_, (_, ax0)) :: _ => if ax = ax0 then .ok (odSet s k (p, ax)) else .error .valueError
      | _ => .error .typeError

/-- `PDFSet.get_pdf(gridparams)` -/
def getPdfE (h : List (K × PyVal) → H) (s : List (H × (P × Nat))) : KeyArg K H → Except PErr P
  | .key k => match odGet s k with | some v => .ok v.1 | none => .error .keyError
  | .dict d => match odGet s (gridKey h d) with | some v => .ok v.1 | none => .error .keyError
  | .other => .error .typeError

/-- `key in pdfset` -/
def containsE (h : List (K × PyVal) → H) (s : List (H × (P × Nat))) : KeyArg K H → Except PErr Bool
  | .key k => .ok (odGet s k).isSome
  | .dict d => .ok (odGet s (gridKey h d)).isSome
  | .other => .error .typeError

/-- `pdfset.pdf_keys` -/
def pdfKeys (s : List (H × (P × Nat))) : List H := odKeys s

end hash

/-! ## DatasetCollection (`skyllh/core/dataset.py`): datasets keyed by their name, no positional order -/

section dataset
variable {N : Type} [DecidableEq N]

/-- `d.pop(k)` for a present key / no-op for an absent one -/
def odErase {V : Type} : List (N × V) → N → List (N × V)
  | [], _ => []
  | (k', v') :: t, k => if k' = k then t else (k', v') :: odErase t k

/-- what is handed to `add_datasets`: identity, name, `isinstance(obj, Dataset)` -/
structure DsObj (N : Type) where
  id : Nat
  name : N
  isDataset : Bool

inductive DsOp (N : Type)
  | add (ds : List (DsObj N))        -- `add_datasets(d)`, `add_datasets([d1, …])`, `+=`
  | remove (n : N)                   -- `remove_dataset(name)`
  | get (n : N)                      -- `get_dataset(name)`, `dc[name]`

/-- the loop of `add_datasets`: every element is checked and stored in turn — what was stored
before a raising element stays stored -/
def dsAddEach : List (N × Nat) → List (DsObj N) → List (N × Nat) × Except Err (Option Nat)
  | s, [] => (s, .ok none)
  | s, d :: t =>
      if !d.isDataset then (s, .error .typeError)
      else if (odGet s d.name).isSome then (s, .error .keyError)
      else dsAddEach (odSet s d.name d.id) t

def dsStep (s : List (N × Nat)) : DsOp N → List (N × Nat) × Except Err (Option Nat)
  | .add ds => dsAddEach s ds
  | .remove n => if (odGet s n).isSome then (odErase s n, .ok none) else (s, .error .keyError)
  | .get n => match odGet s n with
      | some i => (s, .ok (some i))
      | none => (s, .error .keyError)

def dsRun (s : List (N × Nat)) : List (DsOp N) → List (N × Nat)
  | [] => s
  | op :: ops => dsRun (dsStep s op).1 ops

end dataset

/-- `dataset_names`: the names in sorted order -/
def datasetNames {N : Type} [LE N] [DecidableLE N] (s : List (N × Nat)) : List N :=
  (canon s).map Prod.fst

/-! ## DataFieldStages -/

def andCheck (stage m : Nat) : Bool := stage &&& m == m
def orCheck (stage m : Nat) : Bool := stage &&& m != 0

/-- the loop of `and_check` for a sequence of stages -/
def andCheckSeq (stage : Nat) : List Nat → Bool
  | [] => true
  | m :: t => if stage &&& m != m then false else andCheckSeq stage t

/-- the loop of `or_check` for a sequence of stages -/
def orCheckSeq (stage : Nat) : List Nat → Bool
  | [] => false
  | m :: t => if stage &&& m != 0 then true else orCheckSeq stage t

/-- `stages : int | sequence of int` -/
inductive Stages | one (m : Nat) | many (ms : List Nat)

def andCheckS (stage : Nat) : Stages → Bool
  | .one m => andCheck stage m
  | .many ms => andCheckSeq stage ms

def orCheckS (stage : Nat) : Stages → Bool
  | .one m => orCheck stage m
  | .many ms => orCheckSeq stage ms

/-- the `stages` argument as Python sees it: an `int` (also `bool`), a sequence / set / array of
integers, or a scalar that is neither (`numpy.int64(…)`: not an `int`, not iterable → `TypeError`) -/
inductive StagesArg | int (m : Nat) | iter (ms : List Nat) | scalar

/-- `and_check` / `or_check` with the `TypeError` branch (`none`) -/
def andCheckE (stage : Nat) : StagesArg → Option Bool
  | .int m => some (andCheck stage m)
  | .iter ms => some (andCheckSeq stage ms)
  | .scalar => none

def orCheckE (stage : Nat) : StagesArg → Option Bool
  | .int m => some (orCheck stage m)
  | .iter ms => some (orCheckSeq stage ms)
  | .scalar => none

/-- `get_joint_names`: the first field evaluates `or_check` and raises for a scalar that is not an
`int` — unless there is no field at all -/
def jointNamesE {N : Type} (fields : List (N × Nat)) : StagesArg → Option (List N)
  | .int m => some ((fields.filter fun f => orCheck f.2 m).map Prod.fst)
  | .iter ms => some ((fields.filter fun f => orCheckSeq f.2 ms).map Prod.fst)
  | .scalar => if fields.isEmpty then some [] else none

/-- `DataFields.get_joint_names` -/
def jointNames {N : Type} (fields : List (N × Nat)) (st : Stages) : List N :=
  (fields.filter fun f => orCheckS f.2 st).map Prod.fst

/-! ## Config

A (nested) dictionary is kept flat: the path of every dict node with its identity, the path of
every other value with a value code.  Keys and values are numbers (the harness keeps the tables). -/

structure Cfg where
  dicts : List (List Nat × Nat)
  leaves : List (List Nat × Nat)
deriving DecidableEq, Repr

namespace Cfg

def locs (c : Cfg) : List Nat := c.dicts.map Prod.snd

/-- `d[k] = v` at the dict with path `p` (`q = p ++ [k]`): whatever was stored below `q` is gone -/
def setLeaf (c : Cfg) (q : List Nat) (v : Nat) : Cfg :=
  { dicts := c.dicts.filter (fun d => !(q.isPrefixOf d.1)),
    leaves := c.leaves.filter (fun x => !(q.isPrefixOf x.1)) ++ [(q, v)] }

/-- the effect on `c` of `obj[k] = v` where `obj` is the dict object with identity `l` -/
def writeLoc (l k v : Nat) (c : Cfg) : Cfg :=
  (c.dicts.filter (fun d => d.2 = l)).foldl (fun acc d => acc.setLeaf (d.1 ++ [k]) v) c

def firstIdx (l : Nat) : List Nat → Nat
  | [] => 0
  | x :: t => if x = l then 0 else firstIdx l t + 1

/-- `copy.deepcopy`: every dict object gets a new identity `≥ n` (shared ones stay shared) -/
def deepCopy (n : Nat) (c : Cfg) : Cfg :=
  { dicts := c.dicts.map (fun d => (d.1, n + firstIdx d.2 c.locs)), leaves := c.leaves }

def topKeys (u : Cfg) : List Nat :=
  (u.dicts.map Prod.fst ++ u.leaves.map Prod.fst).filterMap List.head?

def underTop (ks : List Nat) (p : List Nat) : Bool :=
  match p with
  | [] => false
  | k :: _ => ks.contains k

/-- `c.update(u)` (top level only): the values of `u` replace those of `c`, *as the same objects* -/
def update (c u : Cfg) : Cfg :=
  let ks := topKeys u
  { dicts := c.dicts.filter (fun d => !(underTop ks d.1)) ++ u.dicts.filter (fun d => d.1 ≠ []),
    leaves := c.leaves.filter (fun x => !(underTop ks x.1)) ++ u.leaves.filter (fun x => x.1 ≠ []) }

end Cfg

/-- the result of an item read: `None` (statements), a scalar value, or a nested container object -/
inductive CRes | unit | val (v : Nat) | cont
deriving DecidableEq, Repr

namespace Cfg

/-- what is stored under the full path `q` -/
def lookup (c : Cfg) (q : List Nat) : Option CRes :=
  match odGet c.leaves q with
  | some v => some (.val v)
  | none => if (odGet c.dicts q).isSome then some .cont else none

/-- everything stored at or below `q` is gone -/
def removeUnder (c : Cfg) (q : List Nat) : Cfg :=
  { dicts := c.dicts.filter (fun d => !(q.isPrefixOf d.1)),
    leaves := c.leaves.filter (fun x => !(q.isPrefixOf x.1)) }

/-- the effect on `c` of `del obj[k]` where `obj` is the container with identity `l` -/
def delLoc (l k : Nat) (c : Cfg) : Cfg :=
  (c.dicts.filter (fun d => d.2 = l)).foldl (fun acc d => acc.removeUnder (d.1 ++ [k])) c

/-- number of entries directly below the container at `p` (`len(obj)`) -/
def childCount (c : Cfg) (p : List Nat) : Nat :=
  ((c.dicts.map Prod.fst ++ c.leaves.map Prod.fst).filter
    (fun q => q.length == p.length + 1 && p.isPrefixOf q)).length

end Cfg

structure CWorld where
  next : Nat
  cfgs : List Cfg          -- number 0 is `_BASECONFIG`
  syspath : List Nat := [] -- `sys.path` (value codes); only `set_wd` touches it

inductive COp
  | new                                      -- `Config()`
  | fromDict (u : Nat)                       -- `Config.from_dict(cfgs[u])`
  | set (j : Nat) (path : List Nat) (k v : Nat)   -- `cfgs[j][p1]..[pn][k] = v`
  | del (j : Nat) (path : List Nat) (k : Nat)     -- `del cfgs[j][p1]..[pn][k]` (also `.pop(k)`)
  | get (j : Nat) (path : List Nat) (k : Nat)     -- `cfgs[j][p1]..[pn][k]`

/-- Python exceptions of the configuration code; `ext c` = the exception (class code `c`) an
external function (os.path, astropy) raised -/
inductive CErr | keyError | typeError | badTarget | ext (code : Nat)
deriving DecidableEq, Repr

/-- where `cfg[p1]..[pn]` ends: identity of that dict, KeyError if absent, TypeError for a scalar -/
def navigate (c : Cfg) (path : List Nat) : Except CErr Nat :=
  match odGet c.dicts path with
  | some l => .ok l
  | none => if (odGet c.leaves path).isSome then .error .typeError else .error .keyError

/-- `cfg[p1]..[pn][k]` as a function of the configuration alone -/
def cget (c : Cfg) (path : List Nat) (k : Nat) : Except CErr CRes :=
  match navigate c path with
  | .error e => .error e
  | .ok _ => match c.lookup (path ++ [k]) with
      | none => .error .keyError
      | some r => .ok r

/-- `Config.__init__`: `dict.__init__(self, copy.deepcopy(_BASECONFIG))` — the top level dict is
the Config itself (a new object), the nested dicts are those of the deep copy. -/
def newCfg (w : CWorld) : Option (Cfg × Nat) :=
  match w.cfgs[0]? with
  | none => none
  | some base => some (base.deepCopy w.next, w.next + base.dicts.length)

def cstep (w : CWorld) : COp → CWorld × Except CErr CRes
  | .new => match newCfg w with
      | none => (w, .error .badTarget)
      | some (c, n) => ({ w with next := n, cfgs := w.cfgs ++ [c] }, .ok .unit)
  | .fromDict u => match newCfg w, w.cfgs[u]? with
      | some (c, n), some ud =>
          ({ w with next := n + ud.dicts.length, cfgs := w.cfgs ++ [c.update (ud.deepCopy n)] }, .ok .unit)
      | _, _ => (w, .error .badTarget)
  | .set j path k v => match w.cfgs[j]? with
      | none => (w, .error .badTarget)
      | some c => match navigate c path with
          | .error e => (w, .error e)
          | .ok l => ({ w with cfgs := w.cfgs.map (Cfg.writeLoc l k v) }, .ok .unit)
  | .del j path k => match w.cfgs[j]? with
      | none => (w, .error .badTarget)
      | some c => match navigate c path with
          | .error e => (w, .error e)
          | .ok l => match c.lookup (path ++ [k]) with
              | none => (w, .error .keyError)
              | some r => ({ w with cfgs := w.cfgs.map (Cfg.delLoc l k) }, .ok r)
  | .get j path k => match w.cfgs[j]? with
      | none => (w, .error .badTarget)
      | some c => (w, cget c path k)

/-- the pinned `from_dict`: `cfg.update(user_dict)` without a copy -/
def cstepOld (w : CWorld) : COp → CWorld × Except CErr CRes
  | .fromDict u => match newCfg w, w.cfgs[u]? with
      | some (c, n), some ud => ({ w with next := n, cfgs := w.cfgs ++ [c.update ud] }, .ok .unit)
      | _, _ => (w, .error .badTarget)
  | op => cstep w op

/-- specification: a write through configuration `j` changes configuration `j` only -/
def cspecStep (w : CWorld) : COp → CWorld × Except CErr CRes
  | .set j path k v => match w.cfgs[j]? with
      | none => (w, .error .badTarget)
      | some c => match navigate c path with
          | .error e => (w, .error e)
          | .ok l => ({ w with cfgs := w.cfgs.set j (c.writeLoc l k v) }, .ok .unit)
  | .del j path k => match w.cfgs[j]? with
      | none => (w, .error .badTarget)
      | some c => match navigate c path with
          | .error e => (w, .error e)
          | .ok l => match c.lookup (path ++ [k]) with
              | none => (w, .error .keyError)
              | some r => ({ w with cfgs := w.cfgs.set j (c.delLoc l k) }, .ok r)
  | op => cstep w op

def crun (stepf : CWorld → COp → CWorld × Except CErr CRes) (w : CWorld) : List COp → CWorld
  | [] => w
  | op :: ops => crun stepf (stepf w op).1 ops

/-- decidable form of "different entries share no container object and all identities are below
the counter" (the invariant `CInv` of `Props/C20.lean`) -/
def pairwiseDisjB : List Cfg → Bool
  | [] => true
  | a :: t => t.all (fun b => a.locs.all (fun l => !(b.locs.contains l))) && pairwiseDisjB t

def cinvB (w : CWorld) : Bool :=
  pairwiseDisjB w.cfgs && w.cfgs.all (fun a => a.locs.all (fun l => decide (l < w.next)))

/-! ### the methods of `Config`, line by line -/

/-- the key codes the methods use -/
structure Keys where
  debugging : Nat
  enableTracing : Nat
  multiproc : Nat
  ncpu : Nat
  units : Nat
  internal : Nat
  angle : Nat
  energy : Nat
  length : Nat
  time : Nat
  project : Nat
  workingDirectory : Nat

/-- the external functions the methods call, on value codes: a value or the class code of the
exception they raise -/
structure Ext where
  abspath : Nat → Except Nat Nat          -- `os.path.abspath(v)`
  conv : Nat → Nat → Except Nat Nat       -- `time_unit.to(internal_time_unit)`
  join : Nat → Nat → Except Nat Nat       -- `os.path.join(wd, filename)`
  vTrue : Nat
  vFalse : Nat

/-- a unit argument of `set_internal_units`: `None`, an `astropy.units.UnitBase` instance, anything else -/
inductive UnitArg | absent | ok (v : Nat) | bad

inductive Method
  | enableTracing | disableTracing | setEnableTracing (flag : Nat) | setNcpu (v : Nat)
  | setInternalUnits (angle energy length time : UnitArg)
  | setWd (path : Option Nat)
  | isTracingEnabled | getWd | toInternalTimeUnit (u : Nat) | wdFilename (f : Nat)

/-- a straight-line method body: item writes, `none` = `raise TypeError` at this point -/
def runScript (stepf : CWorld → COp → CWorld × Except CErr CRes) (w : CWorld) :
    List (Option COp) → CWorld × Except CErr CRes
  | [] => (w, .ok .unit)
  | none :: _ => (w, .error .typeError)
  | some op :: t => match stepf w op with
      | (w', .ok _) => runScript stepf w' t
      | (w', .error e) => (w', .error e)

/-- `if x_unit is not None: if not isinstance(x_unit, UnitBase): raise TypeError; self[...][x] = x_unit` -/
def unitLine (K : Keys) (j : Nat) (a : UnitArg) (key : Nat) : List (Option COp) :=
  match a with
  | .absent => []
  | .bad => [none]
  | .ok v => [some (.set j [K.units, K.internal] key v)]

def liftExt : Except Nat Nat → Except CErr CRes
  | .ok v => .ok (.val v)
  | .error c => .error (.ext c)

/-- apply an external function to a value that was read (a container is not a valid argument) -/
def onVal (r : CRes) (f : Nat → Except Nat Nat) : Except CErr CRes :=
  match r with
  | .val v => liftExt (f v)
  | _ => .error .typeError

def removeFirst (x : Nat) : List Nat → List Nat
  | [] => []
  | y :: t => if y = x then t else y :: removeFirst x t

/-- `if cur in sys.path: sys.path.remove(cur)` (a container is never an entry of `sys.path`) -/
def sysRemove (cur : CRes) (sp : List Nat) : List Nat :=
  match cur with
  | .val v => removeFirst v sp
  | _ => sp

/-- one method call through configuration `j` -/
def cmethod (stepf : CWorld → COp → CWorld × Except CErr CRes) (K : Keys) (E : Ext) (w : CWorld) (j : Nat) :
    Method → CWorld × Except CErr CRes
  | .enableTracing => runScript stepf w [some (.set j [K.debugging] K.enableTracing E.vTrue)]
  | .disableTracing => runScript stepf w [some (.set j [K.debugging] K.enableTracing E.vFalse)]
  | .setEnableTracing flag => runScript stepf w [some (.set j [K.debugging] K.enableTracing flag)]
  | .setNcpu v => runScript stepf w [some (.set j [K.multiproc] K.ncpu v)]
  | .setInternalUnits a e l t =>
      runScript stepf w (unitLine K j a K.angle ++ unitLine K j e K.energy ++ unitLine K j l K.length ++
        unitLine K j t K.time)
  | .setWd path => match w.cfgs[j]? with
      | none => (w, .error .badTarget)
      | some c => match cget c [K.project] K.workingDirectory with     -- the reads of the first two statements
          | .error e => (w, .error e)
          | .ok cur =>
              -- `if cur in sys.path: sys.path.remove(cur)`
              let sp := sysRemove cur w.syspath
              let w1 := { w with syspath := sp }
              -- `wd = os.path.abspath(path)`
              match onVal (match path with | some p => .val p | none => cur) E.abspath with
              | .error e => (w1, .error e)
              | .ok (.val wd) =>
                  match stepf w1 (.set j [K.project] K.workingDirectory wd) with
                  | (w2, .ok _) => ({ w2 with syspath := wd :: w2.syspath }, .ok (.val wd))
                  | (w2, .error e) => (w2, .error e)
              | .ok _ => (w1, .error .typeError)
  | .isTracingEnabled => match w.cfgs[j]? with
      | none => (w, .error .badTarget)
      | some c => (w, cget c [K.debugging] K.enableTracing)
  | .getWd => match w.cfgs[j]? with
      | none => (w, .error .badTarget)
      | some c => match cget c [K.project] K.workingDirectory with
          | .error e => (w, .error e)
          | .ok r => (w, onVal r E.abspath)
  | .toInternalTimeUnit u => match w.cfgs[j]? with
      | none => (w, .error .badTarget)
      | some c => match cget c [K.units, K.internal] K.time with
          | .error e => (w, .error e)
          | .ok r => (w, onVal r (E.conv u))
  | .wdFilename f => match w.cfgs[j]? with
      | none => (w, .error .badTarget)
      | some c => match cget c [K.project] K.workingDirectory with
          | .error e => (w, .error e)
          | .ok r => match onVal r E.abspath with
              | .error e => (w, .error e)
              | .ok (.val wd) => (w, liftExt (E.join wd f))
              | .ok _ => (w, .error .typeError)

/-- a call on the configuration world: a primitive operation or a method -/
inductive CCall | op (o : COp) | meth (j : Nat) (m : Method)

def ccall (stepf : CWorld → COp → CWorld × Except CErr CRes) (K : Keys) (E : Ext) (w : CWorld) :
    CCall → CWorld × Except CErr CRes
  | .op o => stepf w o
  | .meth j m => cmethod stepf K E w j m

def crunCalls (stepf : CWorld → COp → CWorld × Except CErr CRes) (K : Keys) (E : Ext) (w : CWorld) :
    List CCall → CWorld
  | [] => w
  | c :: cs => crunCalls stepf K E (ccall stepf K E w c).1 cs

/-! ### negative model: a class-level memo of the conversion factors keyed by the requested unit only
(seeded change C20_m3b) — shared by all instances, cleared by `set_internal_units(time_unit=…)` -/

/-- `to_internal_time_unit` with the memo: `(memo, result)` -/
def memoTime (E : Ext) (memo : List (Nat × Nat)) (c : Cfg) (K : Keys) (u : Nat) :
    List (Nat × Nat) × Except CErr CRes :=
  match odGet memo u with
  | some f => (memo, .ok (.val f))
  | none => match cget c [K.units, K.internal] K.time with
      | .error e => (memo, .error e)
      | .ok r => match onVal r (E.conv u) with
          | .ok (.val f) => (odSet memo u f, .ok (.val f))
          | other => (memo, other)

end Coll
