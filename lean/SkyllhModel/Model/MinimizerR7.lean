/-
  Round-7 additions to the model of skyllh/core/minimizer.py — property C11.

  * `ObjRet`, `reevalValue`, `wrapperRet` : the re-evaluation of `Minimizer.minimize` after clipping for
    every shape an objective may return (`fmin = res[0] if isinstance(res, (tuple, list)) else res`), with
    the `IndexError` of an empty sequence as `.error`.
  * `crsSuccessG`, `scipyBoundsModeG`, `lbfgsConvergedG`, `lbfgsRepeatableG`, `nrConvergedG` : the status →
    decision code of the implementations with the literals of the source as *parameters* (the values of the
    current source are in Generated/C11.lean; Props/C11.lean proves that at those values the definitions are
    the ones the theorems of the earlier rounds are about).
  * `nrLayout` : `NR1dNsMinimizerImpl` inside a parameter vector of any length (`x[ns_pidx] = ns`, the other
    components are the initials).
-/
import SkyllhModel.Model.Minimizer

namespace Minimizer

/-- what an objective handed to `Minimizer.minimize` may return: the plain function value, or a tuple /
a list whose first element is the function value (the further elements — gradients, second derivative —
are of no concern to the wrapper and are kept as placeholders). -/
inductive ObjRet (F : Type) where
  | scalar (v : F)
  | tuple (vs : List F)
  | list (vs : List F)

/-- the function value inside what the objective returned (`none` for an empty sequence) -/
def ObjRet.first? {F : Type} : ObjRet F → Option F
  | .scalar v => some v
  | .tuple vs => vs.head?
  | .list vs => vs.head?

/-- `fmin = res[0] if isinstance(res, (tuple, list)) else res`; `.error` = `IndexError` -/
def reevalValue {F : Type} : ObjRet F → Except String F
  | .scalar v => .ok v
  | .tuple (v :: _) => .ok v
  | .tuple [] => .error "IndexError:empty-tuple"
  | .list (v :: _) => .ok v
  | .list [] => .error "IndexError:empty-list"

/-- `Minimizer.minimize` around an objective of any return shape -/
def wrapperRet {F : Type} [LT F] [DecidableLT F] [BEq F] (attempt : Nat → Attempt F) (maxReps : Nat)
    (bounds : List (F × F)) (obj : List F → ObjRet F) : Except String (WrapOut F) :=
  wrapperE (fun k => .ok (attempt k)) maxReps bounds (fun x => reevalValue (obj x))

/-! ### status → decision code with the literals of the source as parameters -/

/-- `CRSMinimizerImpl.minimize`: `"success": True if lo < status < hi else False` -/
def crsSuccessG (lo hi code : Int) : Bool := decide (lo < code) && decide (code < hi)

/-- `ScipyMinimizerImpl.minimize`: `if method in native: … elif method == constr[0]: …` -/
def scipyBoundsModeG (native constr : List String) (method : String) : BoundsMode :=
  if native.contains method then .native
  else if constr.contains method then .constraints
  else .dropped

/-- `LBFGSMinimizerImpl.has_converged`: `status['warnflag'] == convFlag` -/
def lbfgsConvergedG (convFlag warnflag : Int) : Bool := warnflag == convFlag

/-- `LBFGSMinimizerImpl.is_repeatable`: `status['warnflag'] == repFlag` and one of the `needles` occurs in
`str(status['task'])` -/
def lbfgsRepeatableG (repFlag : Int) (needles : List String) (warnflag : Int) (task : String) : Bool :=
  warnflag == repFlag && needles.any (fun n => contains task n)

/-- `NR1dNsMinimizerImpl.has_converged`: `status['warnflag'] <= thr` -/
def nrConvergedG (thr flag : Int) : Bool := decide (flag ≤ thr)

/-! ### NR-1D inside a parameter vector -/

/-- `x = np.copy(initials); x[ns_pidx] = ns`: the vector `NR1dNsMinimizerImpl.minimize` returns; `none` =
`IndexError` (`ns_pidx` beyond the vector) -/
def nrLayout {F : Type} (initials : List F) (nsIdx : Nat) (ns : F) : Option (List F) :=
  if nsIdx < initials.length then some (initials.set nsIdx ns) else none

/-! ### which objective `TCLLHRatio.maximize` hands to which implementation -/

/-- the class of the minimiser implementation (`isinstance` — subclasses included) -/
inductive ImplKind where
  | nr1d | nrScan | lbfgs | scipy | iminuit | crs | other
  deriving DecidableEq, Repr

/-- the two paths of `TCLLHRatio.maximize` -/
inductive MaxPath where
  | newton    -- `maximize_with_1d_newton_rapson_minimizer`: objective `(-f, -f', -f'')`, `kwargs={'ns_pidx': …}`
  | generic   -- `LLHRatio.maximize`: objective `(-f, -grads)`, `kwargs={'func_provides_grads': True}`
  deriving DecidableEq, Repr

/-- `if isinstance(impl, NR1dNsMinimizerImpl) or isinstance(impl, NRNsScan2dMinimizerImpl): … else: super().maximize` -/
def maximizePath : ImplKind → MaxPath
  | .nr1d => .newton
  | .nrScan => .newton
  | _ => .generic

/-- number of values the objective of a path returns -/
def objectiveArity : MaxPath → Nat
  | .newton => 3
  | .generic => 2

/-- number of values an implementation unpacks from one objective call (`(f, fprime, fprimeprime) = func(…)` of the NR
loop, which the scan delegates to; value and gradient with `func_provides_grads=True` for the others; `none`: a foreign
implementation, nothing known) -/
def implUnpacks : ImplKind → Option Nat
  | .nr1d => some 3
  | .nrScan => some 3
  | .lbfgs => some 2
  | .scipy => some 2
  | .iminuit => some 2
  | .crs => some 2
  | .other => none

end Minimizer
