import SkyllhModel.Model.Params

/-!
Round-7 additions to the model of `skyllh/core/parameters.py` (property C04), core Lean only.

* `Param.eq` — `Parameter.__eq__` as coded: name, value, isfixed; initial and the two bounds only when
  `self` is floating (the bounds of a fixed parameter are *not* compared).
* `PSet.eqTable` — `p == q` and `q == p` of every parameter of the set against a list of other parameters.
* `PMM.sourcesTypeOk`, `srcModelIdxsChecked`, `srcParamsRecarrayChecked` — the `TypeError` branch of
  `get_src_model_idxs(sources=…)` for a `sources` sequence that holds a model which is no `SourceModel`
  (inherited by `create_src_params_recarray(sources=…)`, after its own length check).
* `PMM.counts`, `gflpIdx`, `globalFloatingParamsDict` — the mapper's delegating views `n_models`,
  `n_global_params`, `n_global_fixed_params`, `n_global_floating_params`, `get_gflp_idx`,
  `create_global_floating_params_dict` (oracle-only before).
* `PMM.normIdx`, `modelParamsDictInt`, `getModelParamName`, `srcRowsIdxInt`, `srcParamsRecarrayIdxInt` — signed
  indices: the explicit range check of `create_model_params_dict(model=<int>)` (negative ⇒ `IndexError`) next to
  the numpy wrap-around of `get_model_param_name` and of the `int32` index array of `create_src_params_recarray`.
* `Defaults` — the `None` / `False` defaults of the public signatures the driver protocol relies on
  (a missing argument and an explicit `None` are the same request); instantiated from the current source
  in `Generated/C04.lean`.
-/

namespace Params

section eq
variable {V : Type} [LT V] [DecidableLT V]

/-- Python `a != b` on `float | None` operands (`None != None` is `False`, `None != x` is `True`). -/
def neOptV : Option V → Option V → Bool
  | none, none => false
  | some x, some y => neV x y
  | _, _ => true

/-- `Parameter.__eq__(self, other)` (`parameters.py:251-281`). -/
def Param.eq (p q : Param V) : Bool :=
  if (p.name != q.name) || neV p.value q.value || (p.isfixed != q.isfixed) then false
  else if !p.isfixed then
    if neV p.initial q.initial || neOptV p.valmin q.valmin || neOptV p.valmax q.valmax then false
    else true
  else true

/-- for every parameter of the set and every `q` of `others`: `(p == q, q == p)`. -/
def PSet.eqTable (s : PSet V) (others : List (Param V)) : List (List (Bool × Bool)) :=
  s.params.map (fun p => others.map (fun q => (p.eq q, q.eq p)))

/-- the parameters that could be constructed out of a list of constructor arguments
(`Parameter(...)` raising ⇒ no object). -/
def createSome : List (PArgs V) → List (Param V)
  | [] => []
  | a :: as =>
    match a.create with
    | .ok p => p :: createSome as
    | .error _ => createSome as

end eq

namespace PMM
variable {V : Type}

/-- `issequenceof(sources, SourceModel)` on a sequence of model objects: positions `< n_models` are
the mapper's own models (source or not), positions `≥ n_models` stand for foreign `SourceModel`s. -/
def sourcesTypeOk (s : PMM V) : Option (List Nat) → Bool
  | none => true
  | some l => l.all (fun i => decide (s.nModels ≤ i) || s.isSourceAt i)

/-- `get_src_model_idxs(sources)` including the `TypeError` of a non-source model in `sources`. -/
def srcModelIdxsChecked (s : PMM V) (sel : Option (List Nat)) : Except Err (List Nat) :=
  if s.sourcesTypeOk sel then .ok (s.srcModelIdxs sel) else .error .typeError

/-- `create_src_params_recarray(gflp_values, sources)`: length check, then `get_src_model_idxs`. -/
def srcParamsRecarrayChecked (s : PMM V) (g : List V) (sel : Option (List Nat)) :
    Except Err (List String × List (Nat × List (Option (V × Int)))) :=
  if g.length ≠ s.gps.floatNames.length then .error .valueError else
  match s.srcModelIdxsChecked sel with
  | .error e => .error e
  | .ok idxs =>
    let fields := s.srcFieldNames
    match srcRows s g fields idxs with
    | .ok rows => .ok (fields, rows)
    | .error e => .error e

/-- `(n_models, n_global_params, n_global_fixed_params, n_global_floating_params)` — the last three
from the caches of the global set (`len(_params)`, `len(_fixed_param_name_list)`,
`len(_floating_param_name_list)`). -/
def counts (s : PMM V) : Nat × Nat × Nat × Nat :=
  (s.models.length, s.gps.params.length, s.gps.fixedNames.length, s.gps.floatNames.length)

/-- `get_gflp_idx(name)` = `global_paramset.get_floating_pidx(name)` (dict lookup, `KeyError`). -/
def gflpIdx (s : PMM V) (n : String) : Except Err Nat :=
  match dget s.gps.floatIdx n with
  | some k => .ok k
  | none => .error .keyError

/-- `create_global_floating_params_dict(gflp_values)` = `dict(zip(floating names, values))`. -/
def globalFloatingParamsDict (s : PMM V) (g : List V) : List (String × V) :=
  s.gps.floatNames.zip g

/-! #### signed indices (numpy wrap-around vs. the explicit range check) -/

/-- index normalisation of `a[i]` on a numpy axis / Python list of length `n`: `-n ≤ i < 0` counts from the
end, everything outside `[-n, n)` is an `IndexError`. -/
def normIdx (n : Nat) (i : Int) : Option Nat :=
  if 0 ≤ i then (if i.toNat < n then some i.toNat else none)
  else if 0 ≤ i + (n : Int) then some (i + (n : Int)).toNat else none

/-- `create_model_params_dict(gflp, model=<int>)`: explicit range check `midx < 0 or midx >= n_models`
(`IndexError`) — a negative index is *not* wrapped here. -/
def modelParamsDictInt (s : PMM V) (g : List V) (midx : Int) : Except Err (List (String × V)) :=
  if midx < 0 ∨ (s.models.length : Int) ≤ midx then .error .indexError
  else s.modelParamsDict g midx.toNat

/-- `get_model_param_name(model_idx, gp_idx)` = `_model_param_names[model_idx, gp_idx]`: plain numpy
indexing, both indices wrap. -/
def getModelParamName (s : PMM V) (mi gi : Int) : Except Err (Option String) :=
  match normIdx s.mpn.length mi with
  | none => .error .indexError
  | some i =>
    match s.mpn[i]? with
    | none => .error .indexError
    | some row =>
      match normIdx row.length gi with
      | none => .error .indexError
      | some j => .ok (row[j]?.join)

/-- `create_src_params_recarray(gflp, sources=<int32 ndarray>)` with signed entries: the row is taken by
numpy indexing (`_model_param_names[smidx]` wraps), the `:model_idx` column keeps the entry as given. -/
def srcRowsIdxInt (s : PMM V) (g : List V) (fields : List String) :
    List Int → Except Err (List (Int × List (Option (V × Int))))
  | [] => .ok []
  | i :: is =>
    match normIdx s.mpn.length i with
    | none => .error .indexError
    | some k =>
      match s.mpn[k]? with
      | none => .error .indexError
      | some row =>
        if (row.filterMap id).all (fun a => fields.contains a) then
          match srcRow s g fields k, srcRowsIdxInt s g fields is with
          | .ok r, .ok rs => .ok ((i, r.2) :: rs)
          | .error e, _ => .error e
          | _, .error e => .error e
        else .error .valueError

def srcParamsRecarrayIdxInt (s : PMM V) (g : List V) (idxs : List Int) :
    Except Err (List String × List (Int × List (Option (V × Int)))) :=
  if g.length ≠ s.gps.floatNames.length then .error .valueError else
  match srcRowsIdxInt s g s.srcFieldNames idxs with
  | .ok rows => .ok (s.srcFieldNames, rows)
  | .error e => .error e

end PMM

/-- defaults of the public signatures (`true` = "the default is `None`" / for `atfront`: the default). -/
structure Defaults where
  addParamAtfront : Bool
  paramValminNone : Bool
  paramValmaxNone : Bool
  paramIsfixedNone : Bool
  makeFixedInitialNone : Bool
  makeFloatingInitialNone : Bool
  makeFloatingValminNone : Bool
  makeFloatingValmaxNone : Bool
  mapParamModelsNone : Bool
  mapParamNamesNone : Bool
  srcModelIdxsSourcesNone : Bool
  recarraySourcesNone : Bool
  deriving DecidableEq, Repr

/-- the defaults the driver protocol (token `N` = argument left out) and the model (`Option` arguments,
`ParameterSet(params)` / `union` adding at the back) assume. -/
def Defaults.assumed : Defaults :=
  { addParamAtfront := false, paramValminNone := true, paramValmaxNone := true, paramIsfixedNone := true,
    makeFixedInitialNone := true, makeFloatingInitialNone := true, makeFloatingValminNone := true,
    makeFloatingValmaxNone := true, mapParamModelsNone := true, mapParamNamesNone := true,
    srcModelIdxsSourcesNone := true, recarraySourcesNone := true }

end Params
