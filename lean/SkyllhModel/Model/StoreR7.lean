/-
  Model/StoreR7.lean — round 7 of C16: the constructor of `DataFieldRecordArray` *with its options*, as coded
  (`skyllh/core/storage.py`, `DataFieldRecordArray.__init__`): the loop over the field names of the input with
  `keep_fields`, `dtype_conversions`, `dtype_conversion_except_fields`, `copy`, the two length checks and `_len`
  taken from the first stored field.  Core Lean only.  (`Op.new` of `Model/Store.lean` is the option-free call.)

      for fname in field_names:
          if (keep_fields is not None) and (fname not in keep_fields): continue
          copy_field = copy;  dt = fname2dtype[fname]
          if (fname not in dtype_conversion_except_fields) and (dt in dtype_conversions):
              dt = dtype_conversions[dt];  copy_field = True
          if copy_field is True:
              column = accessor.get_column(data, fname)
              if len(column) != length: raise ValueError
              field_arr = np.empty((length,), dtype=dt);  np.copyto(field_arr, column)      # casting='same_kind'
          else:
              field_arr = accessor.get_column(data, fname)
          if self._len is None: self._len = len(field_arr)
          elif len(field_arr) != self._len: raise ValueError
          self._data_fields[fname] = field_arr
      if self._len is None: self._len = 0
-/
import SkyllhModel.Model.Store

namespace Store

/-- `np.can_cast(from, to, casting='same_kind')` on the five dtypes — the rule `np.copyto` applies
(compared with numpy on every run). -/
def sameKind : DType → DType → Bool
  | .b, _ => true
  | .i16, .b => false
  | .i64, .b => false
  | .i16, _ => true
  | .i64, _ => true
  | .f32, .f32 => true
  | .f32, .f64 => true
  | .f64, .f32 => true
  | .f64, .f64 => true
  | _, _ => false

structure CtorOpts where
  keep : Option (List Name)          -- keep_fields (None = all)
  convs : List (DType × DType)       -- dtype_conversions
  exc : List Name                    -- dtype_conversion_except_fields
  copy : Bool
  deriving Repr

/-- `(keep_fields is None) or (fname in keep_fields)` -/
def ctorKept (o : CtorOpts) (n : Name) : Bool :=
  match o.keep with
  | none => true
  | some ks => ks.contains n

/-- the dtype a field is converted to (`none`: no conversion applies) -/
def ctorConv (o : CtorOpts) (p : Name × Col) : Option DType :=
  if o.exc.contains p.1 then none else o.convs.lookup p.2.dt

/-- `if self._len is None: self._len = len(field_arr) elif len(field_arr) != self._len: raise ValueError` -/
def ctorLen (l : Option Nat) (q : Name × Prov × Col) : Except Err (Option Nat × (Name × Prov × Col)) :=
  match l with
  | none => .ok (some q.2.2.vals.length, q)
  | some k => if q.2.2.vals.length ≠ k then .error .value else .ok (some k, q)

/-- the body of the loop for a field that is kept; `length` is what the accessor's `get_length` said -/
def ctorField (o : CtorOpts) (length : Nat) (l : Option Nat) (p : Name × Col) :
    Except Err (Option Nat × (Name × Prov × Col)) :=
  match ctorConv o p with
  | some dt =>
    -- a conversion forces the copy
    if p.2.vals.length ≠ length then .error .value
    else if !sameKind p.2.dt dt then .error .type
    else ctorLen l (p.1, .fresh, castCol dt p.2)
  | none =>
    if o.copy then
      if p.2.vals.length ≠ length then .error .value
      else ctorLen l (p.1, .fresh, p.2)
    else ctorLen l (p.1, .kept p.1, p.2)

/-- the field loop: `_len` so far, the input fields still to visit ↦ final `_len`, the stored columns in dict order -/
def ctorLoop (o : CtorOpts) (length : Nat) : Option Nat → List (Name × Col) → Except Err (Option Nat × PCols)
  | l, [] => .ok (l, [])
  | l, p :: r =>
    if ctorKept o p.1 then
      match ctorField o length l p with
      | .error e => .error e
      | .ok (l', q) =>
        match ctorLoop o length l' r with
        | .error e => .error e
        | .ok (l'', qs) => .ok (l'', q :: qs)
    else ctorLoop o length l r

/-- the whole constructor on the columns the accessor enumerates (`length` = `get_length(data)`) -/
def ctorUpd (o : CtorOpts) (length : Nat) (cols : List (Name × Col)) : Except Err Upd :=
  match ctorLoop o length none cols with
  | .error e => .error e
  | .ok (none, q) => .ok ⟨0, q⟩          -- no field stored: `_len = 0`
  | .ok (some k, q) => .ok ⟨k, q⟩

/-- `DictDataTableAccessor.get_length`: the length of the first value of the dict (0 for an empty dict) — also when
that field is not kept.  (Structured ndarray: `shape[0]`, DataFieldRecordArray: `len(data)`; both are the common
length of all columns.) -/
def dictLength (cols : List (Name × Col)) : Nat := firstLen cols

/-- the constructor on a dict of arrays -/
def ctorDict (o : CtorOpts) (cols : List (Name × Col)) : Except Err Upd := ctorUpd o (dictLength cols) cols

/-- the constructor on an existing container (`DataFieldRecordArray(dfra, …)`, also behind `copy()`) -/
def ctorTable (o : CtorOpts) (t : Table) : Except Err Upd := ctorUpd o t.len t.cols

/-- the plain-table reading of the options: `copy(keep_fields)` followed by `convert_dtypes(convs, exc)` -/
def ctorSpecCols (o : CtorOpts) (cols : List (Name × Col)) : List (Name × Col) :=
  (copyCols o.keep cols).map fun p => (p.1, (convertCol o.convs o.exc p).2.2)

/-! ### the constructor as an operation of a history: `DataFieldRecordArray(conts[d], keep_fields, …, copy)`

The input is a live container.  The accessor enumerates `data.field_name_list`, reads the columns through
`data[fname]` and takes `len(data)` as the length (`viewCont`).  A field stored with `copy=False` and without a
conversion is *the array object of the input container* (`place` with the input's slots: `kept` keeps its `Loc`),
every other field is a fresh allocation.  The docstring says that `copy` is forced to `True` for a
DataFieldRecordArray input; the code does not do that, and the model follows the code. -/

def stepCtorH (s : St) (d : Nat) (o : CtorOpts) : St × Except Err Out :=
  match s.conts[d]? with
  | none => (s, .error .cont)
  | some cont =>
    match viewCont s.heap cont with
    | .error e => (s, .error e)
    | .ok t =>
      match ctorTable o t with
      | .error e => (s, .error e)
      | .ok u =>
        match place cont.fields s.heap u.cols with
        | .error e => (s, .error e)
        | .ok (h', fs) => (⟨h', s.conts ++ [⟨fs, fs.map (·.1), u.len, none⟩]⟩, .ok (.cont s.conts.length))

/-- the plain-table reading: a new table `copy(keep)` ; `convert_dtypes` of table `d` -/
def stepCtorT (ts : List Table) (d : Nat) (o : CtorOpts) : List Table × Except Err Out :=
  match getT ts d with
  | .error e => (ts, .error e)
  | .ok t =>
    match ctorTable o t with
    | .error e => (ts, .error e)
    | .ok u => (ts ++ [u.table], .ok (.cont ts.length))

/-! ### `as_numpy_record_array`

      dt = np.dtype([(name, self._data_fields[name].dtype) for name in self.field_name_list])
      arr = np.empty((len(self),), dtype=dt)
      for name in self.field_name_list: arr[name] = self[name]

numpy broadcasts a length-1 column into the field of the record array and refuses any other length. -/

def recordCol (len : Nat) (p : Name × Col) : Except Err (Name × Col) :=
  if p.2.vals.length = len then .ok p
  else match p.2.vals with
    | [v] => .ok (p.1, ⟨p.2.dt, List.replicate len v⟩)
    | _ => .error .value

/-- the record array of container `i`, as a plain table (field order, dtypes, `len(self)` rows) -/
def asRecord (s : St) (i : Nat) : Except Err Table :=
  match viewAt s i with
  | .error e => .error e
  | .ok t =>
    match mapE (recordCol t.len) t.cols with
    | .error e => .error e
    | .ok cols => .ok ⟨t.len, cols⟩

/-! ### which method maintains which cache

The model updates `_field_name_list`, `_len`, `_indices` per operation (`namesUpd`, `Upd.len`, `idxUpd`) and lets only
`set_selection` write into stored arrays.  `Generated/C16.lean` lists, from the ast of the current class body, the
methods that assign each attribute directly and the methods each method calls on `self`; `writesVia` closes the
direct writers under one level of delegation (`__setitem__` → `append_field` / `set_selection`, `tidy_up` →
`remove_field`). -/

/-- the Python method behind an operation of the model -/
def opMethod : Op → String
  | .append _ _ => "append"
  | .appendField _ _ _ => "append_field"
  | .setItem _ _ _ => "__setitem__"
  | .removeField _ _ => "remove_field"
  | .rename _ _ _ => "rename_fields"
  | .tidyUp _ _ => "tidy_up"
  | .getSel _ _ => "get_selection"
  | .setSel _ _ _ => "set_selection"
  | .sortBy _ _ _ => "sort_by_field"
  | .copy _ _ => "copy"
  | .setDtype _ _ _ => "set_field_dtype"
  | .convert _ _ _ => "convert_dtypes"
  | .indices _ => "indices"
  | .new _ => "__init__"

/-- the structure of the class body the update rules `idxUpd` / `namesUpd` / `Upd.len` mirror (recorded from the ast of
the source; `Generated/C16.lean` holds the current lists, the harness reports a difference in the evidence) -/
def idxWritersM : List String := ["__init__", "append", "indices"]
def namesWritersM : List String := ["__init__", "append_field", "remove_field", "rename_fields"]
def lenWritersM : List String := ["__init__", "append"]
/-- methods with an item assignment into a stored array (`self._data_fields[f][i] = …`) -/
def arrayWritersM : List String := ["set_selection"]
def delegatesM : List (String × List String) :=
  [("__getitem__", ["get_selection"]), ("__setitem__", ["append_field", "set_selection"]), ("tidy_up", ["remove_field"])]

/-- method `m` writes the attribute whose direct writers are `ws`, itself or through a method it calls on `self` -/
def writesVia (ws : List String) (dels : List (String × List String)) (m : String) : Bool :=
  ws.contains m ||
    match dels.lookup m with
    | some ds => ds.any ws.contains
    | none => false

end Store
