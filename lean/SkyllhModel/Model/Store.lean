/-
  Model/Store.lean — heap / column-container model shared by C16 and C07 (core Lean only).

  `skyllh.core.storage.DataFieldRecordArray` keeps a dict `_data_fields : name -> ndarray` and three
  derived caches `_field_name_list`, `_len`, `_indices`.  Two layers are modelled:

  * value layer (`Table`, `tableOp`): a plain table = row count + insertion-ordered named columns,
    every public operation as a pure function that also says, per result column, where the array
    object comes from (`Prov`: the *same* array object as an old field, the same array object
    *written in place*, or a *freshly allocated* array) — the write/allocate table of the code;
  * heap layer (`St`, `stepH`): a heap of column arrays (`Loc -> Col`), containers = `name -> Loc`
    plus the three caches, maintained exactly as the code maintains them (`append` sets
    `_indices = None` and adds `len(arr)`, `append_field` appends to the name list, `remove_field`
    removes from it, `rename_fields` recomputes it from the dict keys, …).  Every operation reads
    the container *through the caches* (`for fname in self._field_name_list: self._data_fields[fname]`).

  Values are small integers (exactly representable in bool/int16/int64/float32/float64), so that
  numpy's value conversions are the identity except towards bool; which column gets which dtype
  (np.append promotion, astype, assignment casts) is modelled and compared on every run.
-/
namespace Store

/-- field names and heap locations are natural numbers (notations, so that `omega`/`simp` see `Nat`) -/
scoped notation "Name" => Nat
scoped notation "Loc" => Nat

inductive DType | b | i16 | i64 | f32 | f64
  deriving DecidableEq, Repr, Inhabited

structure Col where
  dt : DType
  vals : List Int
  deriving DecidableEq, Repr, Inhabited

/-- Python exception classes (`cont`: the request names a container that does not exist / a dangling
reference — never a Python exception, a malformed request). -/
inductive Err | key | value | index | type | perm | cont
  deriving DecidableEq, Repr

inductive Out | unit | cont (id : Nat) | idxs (is : List Nat)
  deriving DecidableEq, Repr

/-- `mapM` for `Except Err` with an induction-friendly definition. -/
def mapE {α β : Type} (f : α → Except Err β) : List α → Except Err (List β)
  | [] => .ok []
  | a :: as =>
    match f a with
    | .error e => .error e
    | .ok b =>
      match mapE f as with
      | .error e => .error e
      | .ok bs => .ok (b :: bs)

/-! ### numpy primitives (documented semantics, compared with numpy on every run) -/

/-- `np.result_type` on the five dtypes (used by `np.append` = `concatenate`). -/
def promote : DType → DType → DType
  | .b, d => d
  | d, .b => d
  | .i16, .i16 => .i16
  | .i16, d => d
  | d, .i16 => d
  | .i64, .i64 => .i64
  | .f32, .f32 => .f32
  | _, _ => .f64

/-- value conversion towards dtype `d` (small integers: identity except towards bool). -/
def castVal (d : DType) (v : Int) : Int :=
  match d with
  | .b => if v = 0 then 0 else 1
  | _ => v

def castCol (d : DType) (c : Col) : Col := ⟨d, c.vals.map (castVal d)⟩

def npAppend (a b : Col) : Col :=
  let d := promote a.dt b.dt
  ⟨d, a.vals.map (castVal d) ++ b.vals.map (castVal d)⟩

/-- index array (negative indices count from the end) or boolean mask -/
inductive Sel | idx (is : List Int) | mask (bs : List Bool)
  deriving DecidableEq, Repr

def normIdx (n : Nat) (i : Int) : Option Nat :=
  if 0 ≤ i then (if i.toNat < n then some i.toNat else none)
  else if -(n : Int) ≤ i then some (i + n).toNat else none

def maskPos : List Bool → Nat → List Nat
  | [], _ => []
  | true :: r, k => k :: maskPos r (k + 1)
  | false :: r, k => maskPos r (k + 1)

/-- positions addressed by a selection on an array of length `n` (`IndexError` otherwise) -/
def selPositions (n : Nat) : Sel → Except Err (List Nat)
  | .idx is => mapE (fun i => match normIdx n i with | some k => .ok k | none => .error .index) is
  | .mask bs =>
    -- numpy accepts a boolean index of length 0 on an axis of any length (it selects nothing)
    if bs.length = n ∨ bs = [] then .ok (maskPos bs 0) else .error .index

def gatherE (vs : List Int) (ks : List Nat) : Except Err (List Int) :=
  mapE (fun k => match vs[k]? with | some v => .ok v | none => .error .index) ks

/-- `col[indices]` (always a new array) -/
def selCol (c : Col) (sel : Sel) : Except Err Col :=
  match selPositions c.vals.length sel with
  | .error e => .error e
  | .ok ks => match gatherE c.vals ks with
    | .error e => .error e
    | .ok vs => .ok ⟨c.dt, vs⟩

def scatter : List Int → List (Nat × Int) → List Int
  | vs, [] => vs
  | vs, (k, v) :: r => scatter (vs.set k v) r

/-- `dst[indices] = src` (same array object, written in place; later duplicates win; a length-1
source is broadcast; values are cast to the destination dtype) -/
def putSel (dst : Col) (sel : Sel) (src : Col) : Except Err Col :=
  match selPositions dst.vals.length sel with
  | .error e => .error e
  | .ok ks =>
    let sv := src.vals.map (castVal dst.dt)
    if sv.length = ks.length then .ok ⟨dst.dt, scatter dst.vals (ks.zip sv)⟩
    else match sv with
      | [v] => .ok ⟨dst.dt, scatter dst.vals (ks.map fun k => (k, v))⟩
      | _ => .error .value

def isPerm (perm : List Nat) (n : Nat) : Bool :=
  perm.length == n && (List.range n).all (fun k => perm.contains k)

def nondecr : List Int → Bool
  | a :: b :: r => decide (a ≤ b) && nondecr (b :: r)
  | _ => true

/-! ### insertion-ordered dict (`dict` of CPython ≥ 3.7), polymorphic in the payload -/

section Dict
variable {β : Type}

def dhas (d : List (Name × β)) (n : Name) : Bool := d.any (fun p => p.1 == n)

/-- `d[n] = v`: an existing key keeps its position, a new key goes to the end -/
def dset (d : List (Name × β)) (n : Name) (v : β) : List (Name × β) :=
  if dhas d n then d.map (fun p => if p.1 == n then (n, v) else p) else d ++ [(n, v)]

def dpop (d : List (Name × β)) (n : Name) : List (Name × β) := d.filter (fun p => !(p.1 == n))

/-- the loop of `rename_fields` on a working copy of the dict; membership is tested against the
field-name list as it was *before* the call (as coded) -/
def renameLoop (names : List Name) (mustExist : Bool) :
    List (Name × Name) → List (Name × β) → Except Err (List (Name × β))
  | [], d => .ok d
  | (o, n) :: r, d =>
    if names.contains o then
      match d.lookup o with
      | some v =>
        -- (after the `fix:` commit) renaming onto a name that is still there is refused instead of overwriting that field
        if dhas (dpop d o) n then .error .key
        else renameLoop names mustExist r (dset (dpop d o) n v)
      | none => .error .key
    else if mustExist then .error .key
    else renameLoop names mustExist r d

/-- the loop as coded before that fix: `d[n] = d.pop(o)` silently overwrites an existing field `n` -/
def renameLoopOld (names : List Name) (mustExist : Bool) :
    List (Name × Name) → List (Name × β) → Except Err (List (Name × β))
  | [], d => .ok d
  | (o, n) :: r, d =>
    if names.contains o then
      match d.lookup o with
      | some v => renameLoopOld names mustExist r (dset (dpop d o) n v)
      | none => .error .key
    else if mustExist then .error .key
    else renameLoopOld names mustExist r d

end Dict

/-! ### value layer: the plain table -/

structure Table where
  len : Nat
  cols : List (Name × Col)
  deriving DecidableEq, Repr

/-- where the array object of a result column comes from -/
inductive Prov
  | kept (old : Name)     -- the same ndarray object as field `old` before the operation
  | written (old : Name)  -- the same ndarray object, content overwritten in place
  | fresh                 -- a newly allocated ndarray
  deriving DecidableEq, Repr

abbrev PCols := List (Name × Prov × Col)

structure Upd where
  len : Nat
  cols : PCols
  deriving Repr

def Upd.table (u : Upd) : Table := ⟨u.len, u.cols.map fun p => (p.1, p.2.2)⟩

def Table.keys (t : Table) : List Name := t.cols.map (·.1)
def keepAll (cols : List (Name × Col)) : PCols := cols.map fun p => (p.1, .kept p.1, p.2)
def freshAll (cols : List (Name × Col)) : PCols := cols.map fun p => (p.1, .fresh, p.2)
def firstLen (cols : List (Name × Col)) : Nat :=
  match cols with
  | [] => 0
  | p :: _ => p.2.vals.length

inductive Op
  | append (c d : Nat)
  | appendField (c : Nat) (n : Name) (col : Col)
  | setItem (c : Nat) (n : Name) (col : Col)
  | removeField (c : Nat) (n : Name)
  | rename (c : Nat) (convs : List (Name × Name)) (mustExist : Bool)
  | tidyUp (c : Nat) (keep : List Name)
  | getSel (c : Nat) (sel : Sel)
  | setSel (c : Nat) (sel : Sel) (d : Nat)
  | sortBy (c : Nat) (n : Name) (perm : List Nat)
  | copy (c : Nat) (keep : Option (List Name))
  | setDtype (c : Nat) (n : Name) (dt : DType)
  | convert (c : Nat) (convs : List (DType × DType)) (exc : List Name)
  | indices (c : Nat)
  | new (cols : List (Name × Col))
  deriving Repr

/-- per-column steps of the operations (named, so that proofs can refer to them) -/
def appendCol (s : Table) (p : Name × Col) : Except Err (Name × Prov × Col) :=
  match s.cols.lookup p.1 with
  | some c2 => .ok (p.1, .fresh, npAppend p.2 c2)
  | none => .error .key

def selColE (sel : Sel) (p : Name × Col) : Except Err (Name × Col) :=
  match selCol p.2 sel with
  | .ok c2 => .ok (p.1, c2)
  | .error e => .error e

def srcCol (s : Table) (p : Name × Col) : Except Err (Name × Col × Col) :=
  match s.cols.lookup p.1 with
  | some c2 => .ok (p.1, p.2, c2)
  | none => .error .key

def putCol (sel : Sel) (q : Name × Col × Col) : Except Err (Name × Prov × Col) :=
  match putSel q.2.1 sel q.2.2 with
  | .ok c2 => .ok (q.1, .written q.1, c2)
  | .error e => .error e

def sortCol (perm : List Nat) (p : Name × Col) : Except Err (Name × Prov × Col) :=
  match gatherE p.2.vals perm with
  | .ok vs => .ok (p.1, .fresh, ⟨p.2.dt, vs⟩)
  | .error e => .error e

def setItemCol (n : Name) (col : Col) (p : Name × Col) : Name × Prov × Col :=
  if p.1 == n then (p.1, .fresh, col) else (p.1, .kept p.1, p.2)

def setDtypeCol (n : Name) (dt : DType) (p : Name × Col) : Name × Prov × Col :=
  if p.1 == n then (if p.2.dt = dt then (p.1, .kept p.1, p.2) else (p.1, .fresh, castCol dt p.2))
  else (p.1, .kept p.1, p.2)

def convertCol (convs : List (DType × DType)) (exc : List Name) (p : Name × Col) : Name × Prov × Col :=
  if exc.contains p.1 then (p.1, .kept p.1, p.2)
  else match convs.lookup p.2.dt with
    | some dt => (p.1, .fresh, castCol dt p.2)
    | none => (p.1, .kept p.1, p.2)

def copyCols (keep : Option (List Name)) (cols : List (Name × Col)) : List (Name × Col) :=
  match keep with
  | none => cols
  | some ks => cols.filter fun p => ks.contains p.1

inductive Target | inplace (c : Nat) | new
  deriving DecidableEq, Repr

/-- Every public operation as a function on tables.  `get i` reads table `i` (`Err.cont` if there is
none).  The result names the target (`inplace c` replaces table `c`, `new` appends a table), the
new content with its provenance, and the value returned to the caller.  A raising operation changes
nothing (all checks come before the first mutation — after the three `fix:` commits for `append`,
`rename_fields`, `set_selection`). -/
def tableOp (get : Nat → Except Err Table) (nconts : Nat) : Op → Except Err (Target × Upd × Out)
  | .append c d => do
      let t ← get c
      let s ← get d
      let cols ← mapE (appendCol s) t.cols
      pure (.inplace c, ⟨t.len + s.len, cols⟩, .unit)
  | .appendField c n col => do
      let t ← get c
      if dhas t.cols n then throw .key
      else if col.vals.length ≠ t.len then throw .value
      else pure (.inplace c, ⟨t.len, keepAll t.cols ++ [(n, .fresh, col)]⟩, .unit)
  | .setItem c n col => do
      let t ← get c
      if dhas t.cols n then
        if col.vals.length ≠ t.len then throw .value
        else pure (.inplace c, ⟨t.len, t.cols.map (setItemCol n col)⟩, .unit)
      else if col.vals.length ≠ t.len then throw .value
      else pure (.inplace c, ⟨t.len, keepAll t.cols ++ [(n, .fresh, col)]⟩, .unit)
  | .removeField c n => do
      let t ← get c
      if dhas t.cols n then pure (.inplace c, ⟨t.len, keepAll (dpop t.cols n)⟩, .unit)
      else throw .key
  | .rename c convs mustExist => do
      let t ← get c
      let cols ← renameLoop t.keys mustExist convs (keepAll t.cols)
      pure (.inplace c, ⟨t.len, cols⟩, .unit)
  | .tidyUp c keep => do
      let t ← get c
      pure (.inplace c, ⟨t.len, keepAll (t.cols.filter fun p => keep.contains p.1)⟩, .unit)
  | .getSel c sel => do
      let t ← get c
      let cols ← mapE (selColE sel) t.cols
      pure (.new, ⟨firstLen cols, freshAll cols⟩, .cont nconts)
  | .setSel c sel d => do
      let t ← get c
      let s ← get d
      let srcs ← mapE (srcCol s) t.cols
      let cols ← mapE (putCol sel) srcs
      pure (.inplace c, ⟨t.len, cols⟩, .unit)
  | .sortBy c n perm => do
      let t ← get c
      match t.cols.lookup n with
      | none => throw .key
      | some key =>
        if !isPerm perm key.vals.length then throw .perm
        else
          let ks ← gatherE key.vals perm
          if !nondecr ks then throw .perm
          else
            let cols ← mapE (sortCol perm) t.cols
            pure (.inplace c, ⟨t.len, cols⟩, .idxs perm)
  | .copy c keep => do
      let t ← get c
      let cols := copyCols keep t.cols
      pure (.new, ⟨if cols.isEmpty then 0 else t.len, freshAll cols⟩, .cont nconts)
  | .setDtype c n dt => do
      let t ← get c
      if dhas t.cols n then
        pure (.inplace c, ⟨t.len, t.cols.map (setDtypeCol n dt)⟩, .unit)
      else throw .key
  | .convert c convs exc => do
      let t ← get c
      pure (.inplace c, ⟨t.len, t.cols.map (convertCol convs exc)⟩, .unit)
  | .indices c => do
      let t ← get c
      pure (.inplace c, ⟨t.len, keepAll t.cols⟩, .idxs (List.range t.len))
  | .new cols =>
      let n := firstLen cols
      if cols.all (fun p => p.2.vals.length == n) then
        if (cols.map (·.1)).Nodup then pure (.new, ⟨n, freshAll cols⟩, .cont nconts)
        else throw .cont
      else throw .value

def getT (ts : List Table) (i : Nat) : Except Err Table :=
  match ts[i]? with
  | some t => .ok t
  | none => .error .cont

/-- the plain-table semantics of one operation (specification side) -/
def stepT (ts : List Table) (op : Op) : List Table × Except Err Out :=
  match tableOp (getT ts) ts.length op with
  | .error e => (ts, .error e)
  | .ok (.inplace c, u, out) => (ts.set c u.table, .ok out)
  | .ok (.new, u, out) => (ts ++ [u.table], .ok out)

def runT (ts : List Table) : List Op → List Table
  | [] => ts
  | op :: r => runT (stepT ts op).1 r

/-! ### heap layer: the container as coded -/

structure Cont where
  fields : List (Name × Loc)      -- _data_fields
  names : List Name               -- _field_name_list
  len : Nat                       -- _len
  idx : Option (List Nat)         -- _indices
  deriving DecidableEq, Repr

structure St where
  heap : List Col
  conts : List Cont
  deriving Repr

/-- read a container the way the methods do: loop over `_field_name_list`, look each name up in
`_data_fields` (`KeyError` when the list is stale), length from `_len`. -/
def readField (heap : List Col) (fields : List (Name × Loc)) (n : Name) : Except Err (Name × Col) :=
  match fields.lookup n with
  | none => .error .key
  | some l => match heap[l]? with
    | some col => .ok (n, col)
    | none => .error .cont

def viewCont (heap : List Col) (c : Cont) : Except Err Table :=
  match mapE (readField heap c.fields) c.names with
  | .error e => .error e
  | .ok cols => .ok ⟨c.len, cols⟩

def viewAt (s : St) (i : Nat) : Except Err Table :=
  match s.conts[i]? with
  | some c => viewCont s.heap c
  | none => .error .cont

/-- bind the result columns: a fresh column is allocated at the end of the heap, a kept column keeps
its `Loc`, a written column keeps its `Loc` and the heap cell is overwritten. -/
def place (old : List (Name × Loc)) : List Col → PCols → Except Err (List Col × List (Name × Loc))
  | h, [] => .ok (h, [])
  | h, (n, .fresh, col) :: r =>
    match place old (h ++ [col]) r with
    | .error e => .error e
    | .ok (h', fs) => .ok (h', (n, h.length) :: fs)
  | h, (n, .kept o, _) :: r =>
    match old.lookup o with
    | none => .error .cont
    | some l =>
      match place old h r with
      | .error e => .error e
      | .ok (h', fs) => .ok (h', (n, l) :: fs)
  | h, (n, .written o, col) :: r =>
    match old.lookup o with
    | none => .error .cont
    | some l =>
      if l < h.length then
        match place old (h.set l col) r with
        | .error e => .error e
        | .ok (h', fs) => .ok (h', (n, l) :: fs)
      else .error .cont

/-- how each method maintains `_field_name_list` -/
def namesUpd (names : List Name) (fs : List (Name × Loc)) : Op → List Name
  | .appendField _ n _ => names ++ [n]
  | .setItem _ n _ => if names.contains n then names else names ++ [n]
  | .removeField _ n => names.erase n
  | .tidyUp _ keep => names.filter fun n => keep.contains n
  | .rename _ _ _ => fs.map (·.1)
  | _ => names

/-- how each method maintains `_indices` -/
def idxUpd (idx : Option (List Nat)) (len : Nat) : Op → Option (List Nat)
  | .append _ _ => none
  | .indices _ => match idx with
    | none => some (List.range len)
    | some i => some i
  | _ => idx

def stepH (s : St) (op : Op) : St × Except Err Out :=
  match tableOp (viewAt s) s.conts.length op with
  | .error e => (s, .error e)
  | .ok (.inplace c, u, out) =>
    match s.conts[c]? with
    | none => (s, .error .cont)
    | some cont =>
      match place cont.fields s.heap u.cols with
      | .error e => (s, .error e)
      | .ok (h', fs) =>
        (⟨h', s.conts.set c ⟨fs, namesUpd cont.names fs op, u.len, idxUpd cont.idx u.len op⟩⟩,
         .ok (match op, cont.idx with
              | .indices _, some i => .idxs i     -- the cached array is returned as it is
              | _, _ => out))
  | .ok (.new, u, out) =>
    match place [] s.heap u.cols with
    | .error e => (s, .error e)
    | .ok (h', fs) => (⟨h', s.conts ++ [⟨fs, fs.map (·.1), u.len, none⟩]⟩, .ok out)

def runH (s : St) : List Op → St
  | [] => s
  | op :: r => runH (stepH s op).1 r


/-! ### arrays handed in by the caller: locations shared between slots

`append_field`, `__setitem__` and the constructor with `copy=False` store the caller's ndarray object itself.
When that array already is a column — of the same container, of another live container, or the caller keeps a
reference — two slots are bound to one location.  Which operations *write through* a location (`set_selection`:
`self._data_fields[fname][indices] = …`) and which *rebind* their slots to newly allocated arrays (everything
else: `np.append`, fancy indexing, `astype`, dict manipulation) then becomes observable. -/

inductive XOp
  | base (op : Op)
  | appendFieldFrom (c : Nat) (n : Name) (d : Nat) (m : Name)   -- conts[c].append_field(n, conts[d][m])
  | setItemFrom (c : Nat) (n : Name) (d : Nat) (m : Name)       -- conts[c][n] = conts[d][m]
  | newShared (d : Nat) (m : Name)   -- DataFieldRecordArray({m: conts[d][m]}, copy=False); also: the caller keeps conts[d][m]
  | poke (d : Nat) (m : Name) (k : Nat) (v : Int)   -- the caller writes into the live array `conts[d][m]`: `conts[d][m][k] = v`
  deriving Repr

/-- the only operation that writes into existing arrays -/
def XOp.writesThrough : XOp → Bool
  | .base (.setSel _ _ _) => true
  | .poke _ _ _ _ => true
  | _ => false

/-- `append_field(n, arr)` with `arr` = the array at location `l` -/
def bindNew (s : St) (c : Nat) (cont : Cont) (n : Name) (l : Loc) : St × Except Err Out :=
  if dhas cont.fields n then (s, .error .key)
  else match s.heap[l]? with
    | none => (s, .error .cont)
    | some col =>
      if col.vals.length ≠ cont.len then (s, .error .value)
      else (⟨s.heap, s.conts.set c { cont with fields := cont.fields ++ [(n, l)], names := cont.names ++ [n] }⟩, .ok .unit)

def stepX (s : St) : XOp → St × Except Err Out
  | .base op => stepH s op
  | .appendFieldFrom c n d m =>
    match s.conts[c]?, s.conts[d]? with
    | some cont, some src =>
      match src.fields.lookup m with
      | none => (s, .error .key)
      | some l => bindNew s c cont n l
    | _, _ => (s, .error .cont)
  | .setItemFrom c n d m =>
    match s.conts[c]?, s.conts[d]? with
    | some cont, some src =>
      match src.fields.lookup m with
      | none => (s, .error .key)
      | some l =>
        if dhas cont.fields n then
          match s.heap[l]? with
          | none => (s, .error .cont)
          | some col =>
            if col.vals.length ≠ cont.len then (s, .error .value)
            else (⟨s.heap, s.conts.set c { cont with fields := dset cont.fields n l }⟩, .ok .unit)
        else bindNew s c cont n l
    | _, _ => (s, .error .cont)
  | .newShared d m =>
    match s.conts[d]? with
    | none => (s, .error .cont)
    | some src =>
      match src.fields.lookup m with
      | none => (s, .error .key)
      | some l =>
        match s.heap[l]? with
        | none => (s, .error .cont)
        | some col => (⟨s.heap, s.conts ++ [⟨[(m, l)], [m], col.vals.length, none⟩]⟩, .ok (.cont s.conts.length))
  | .poke d m k v =>
    -- `__getitem__` hands out the stored ndarray itself: the caller's assignment goes into the heap cell
    match s.conts[d]? with
    | none => (s, .error .cont)
    | some src =>
      match src.fields.lookup m with
      | none => (s, .error .key)
      | some l =>
        match s.heap[l]? with
        | none => (s, .error .cont)
        | some col =>
          if k < col.vals.length then (⟨s.heap.set l ⟨col.dt, col.vals.set k (castVal col.dt v)⟩, s.conts⟩, .ok .unit)
          else (s, .error .index)

def runX (s : St) : List XOp → St
  | [] => s
  | op :: r => runX (stepX s op).1 r

/-- plain-table reading of the same operations (the handed-in array is taken by value) -/
def stepTX (ts : List Table) : XOp → List Table × Except Err Out
  | .base op => stepT ts op
  | .appendFieldFrom c n d m =>
    match ts[c]?, ts[d]? with
    | some _, some src =>
      match src.cols.lookup m with
      | none => (ts, .error .key)
      | some col => stepT ts (.appendField c n col)
    | _, _ => (ts, .error .cont)
  | .setItemFrom c n d m =>
    match ts[c]?, ts[d]? with
    | some _, some src =>
      match src.cols.lookup m with
      | none => (ts, .error .key)
      | some col => stepT ts (.setItem c n col)
    | _, _ => (ts, .error .cont)
  | .newShared d m =>
    match ts[d]? with
    | none => (ts, .error .cont)
    | some src =>
      match src.cols.lookup m with
      | none => (ts, .error .key)
      | some col => stepT ts (.new [(m, col)])
  | .poke d m k v =>
    match ts[d]? with
    | none => (ts, .error .cont)
    | some src =>
      match src.cols.lookup m with
      | none => (ts, .error .key)
      | some col =>
        if k < col.vals.length then
          (ts.set d ⟨src.len, src.cols.map fun p => if p.1 == m then (p.1, ⟨col.dt, col.vals.set k (castVal col.dt v)⟩) else p⟩, .ok .unit)
        else (ts, .error .index)


/-! ### read-only arrays and the order of checks and writes

A handed-in array can be read-only (`ndarray.flags.writeable = False`: memory-mapped files, `np.broadcast_to`, pyarrow
zero-copy).  Read-only-ness belongs to the array object, i.e. to the location; newly allocated arrays are writeable.
`set_selection` is the only operation that needs writeable arrays. -/

/-- `set_selection` on a target one of whose columns is read-only -/
def roBlocked (ro : List Loc) (s : St) : XOp → Bool
  | .base (.setSel c _ _) =>
    match s.conts[c]? with
    | some cont => cont.fields.any fun p => ro.contains p.2
    | none => false
  | .poke d m _ _ =>
    match (s.conts[d]?).bind (fun c => c.fields.lookup m) with
    | some l => ro.contains l
    | none => false
  | _ => false

/-- the operations with read-only locations `ro`, as coded after the fixes: `set_selection` first fetches the partner's
columns (`KeyError`), then checks that all its arrays are writeable (`ValueError`), and only then writes -/
def stepXR (ro : List Loc) (s : St) (xop : XOp) : St × Except Err Out :=
  if roBlocked ro s xop then
    match (stepX s xop).2 with
    | .error .key => (s, .error .key)
    | .error .cont => (s, .error .cont)
    | _ => (s, .error .value)
  else stepX s xop

/-- `set_selection` **as coded before the fixes**: one field after the other, the partner's column is looked up and the
assignment made inside the same loop iteration, so an exception leaves the fields written so far -/
def setSelSeqLoop (ro : List Loc) (sel : Sel) (src : Table) (fields : List (Name × Loc)) :
    List Name → List Col → List Col × Except Err Out
  | [], h => (h, .ok .unit)
  | n :: r, h =>
    match fields.lookup n, src.cols.lookup n with
    | some l, some c2 =>
      match h[l]? with
      | none => (h, .error .cont)
      | some dst =>
        if ro.contains l then (h, .error .value)
        else match putSel dst sel c2 with
          | .ok c' => setSelSeqLoop ro sel src fields r (h.set l c')
          | .error e => (h, .error e)
    | _, _ => (h, .error .key)

def setSelSeq (ro : List Loc) (s : St) (c : Nat) (sel : Sel) (d : Nat) : St × Except Err Out :=
  match s.conts[c]?, viewAt s d with
  | some cont, .ok src =>
    let r := setSelSeqLoop ro sel src cont.fields cont.names s.heap
    (⟨r.1, s.conts⟩, r.2)
  | _, _ => (s, .error .cont)

/-- `append` **as coded before the fix**: every field is rebound inside the loop, `_len` afterwards -/
def appendSeqLoop (src : Table) : List Name → List Col → List (Name × Loc) → List Col × List (Name × Loc) × Except Err Out
  | [], h, fs => (h, fs, .ok .unit)
  | n :: r, h, fs =>
    match fs.lookup n, src.cols.lookup n with
    | some l, some c2 =>
      match h[l]? with
      | none => (h, fs, .error .cont)
      | some c1 => appendSeqLoop src r (h ++ [npAppend c1 c2]) (dset fs n h.length)
    | _, _ => (h, fs, .error .key)

def appendSeq (s : St) (c d : Nat) : St × Except Err Out :=
  match s.conts[c]?, viewAt s d with
  | some cont, .ok src =>
    let r := appendSeqLoop src cont.names s.heap cont.fields
    match r.2.2 with
    | .ok o => (⟨r.1, s.conts.set c { cont with fields := r.2.1, len := cont.len + src.len, idx := none }⟩, .ok o)
    | .error e => (⟨r.1, s.conts.set c { cont with fields := r.2.1 }⟩, .error e)
  | _, _ => (s, .error .cont)

end Store
