/-
  Model of the data loading path of skyllh — property C17.

    skyllh/core/storage.py   NPYFileLoader (time / memory efficient), ParquetFileLoader,
                             TextFileLoader, DataFieldRecordArray.__init__/append/rename_fields/tidy_up
    skyllh/core/datafields.py  DataFieldStages.or_check, DataFields.get_joint_names
    skyllh/core/dataset.py   Dataset.load_data (keep-field computation through the inverted renaming
                             dictionaries), load_and_prepare_data (tidy-up), assert_data_format

  A data file is a structured array: a schema (field name, dtype) and rows (row-major, like the
  memory-mapped ndarray the code indexes with `mmap_ndarray[ridx]` / `row[fidx]`).  The file system
  (`fs : P → Option File`), the dtype cast (`cast : D → D → V → V`, numpy's C cast) and numpy's
  dtype promotion (`promote`) are parameters: the theorems hold for every choice, the driver runs
  the concrete instance at the end of this file.  Python exceptions are `Except Err`.

  Python dictionaries are association lists with distinct keys, in insertion order.
-/

namespace Load

inductive Err
  | fileMissing     -- RuntimeError: The data file does not exist
  | keyError        -- KeyError
  | indexError      -- IndexError (row shorter than the schema / empty file list)
  | uninit          -- model only: a cell of an `np.empty` column was never assigned
  | noColumns       -- ValueError: No data columns were selected to be loaded (text loader)
  | schemaMismatch  -- pyarrow.concat_tables on tables with different schemas
  | noLivetime      -- ValueError: No livetime was specified
  | castKind        -- TypeError: Cannot cast array data … according to the rule 'same_kind' (np.copyto)
  | castOverflow    -- OverflowError: Python integer … out of bounds (element assignment)
  | zeroDivision    -- ZeroDivisionError (`ridx % bs` with bs = 0)
  deriving DecidableEq, Repr, Inhabited

/-- `mapM` in the `Except` monad, written out (first error wins, left to right). -/
def mapE {α β ε : Type} (f : α → Except ε β) : List α → Except ε (List β)
  | [] => .ok []
  | a :: as =>
    match f a with
    | .error e => .error e
    | .ok b =>
      match mapE f as with
      | .error e => .error e
      | .ok bs => .ok (b :: bs)

/-- one data field of a `DataFieldRecordArray` -/
structure Col (N D V : Type) where
  name : N
  dt : D
  cells : List V
  deriving DecidableEq, Repr

/-- a structured array as stored in a file -/
structure File (N D V : Type) where
  schema : List (N × D)
  rows : List (List V)
  deriving DecidableEq, Repr

/-- `DataFieldRecordArray`: ordered fields + the separately kept `_len` -/
structure Arr (N D V : Type) where
  cols : List (Col N D V)
  len : Nat
  deriving DecidableEq, Repr

/-- options of `FileLoader.load_data` -/
structure Opts (N D : Type) where
  keep : Option (List N)      -- keep_fields (None = all)
  conv : List (D × D)         -- dtype_conversions
  exc : List N                -- dtype_conversion_except_fields

inductive Mode | time | memory
  deriving DecidableEq, Repr

section generic
variable {N D V P : Type} [DecidableEq N] [DecidableEq D]

/-- `(keep_fields is not None) and (fname not in keep_fields)` negated -/
def isKept (keep : Option (List N)) (f : N) : Bool :=
  match keep with
  | none => true
  | some ks => decide (f ∈ ks)

/-- `if (fname not in except_fields) and (dt in dtype_conversions): dt = dtype_conversions[dt]` -/
def targetDt (conv : List (D × D)) (exc : List N) (f : N) (dt : D) : D :=
  if f ∈ exc then dt
  else match conv.lookup dt with
    | some d => d
    | none => dt

/-- the field loop shared by both loading modes: (field index, name, file dtype, final dtype) of
every field that is kept, in file order -/
def selectedFrom (o : Opts N D) : Nat → List (N × D) → List (Nat × N × D × D)
  | _, [] => []
  | i, (f, dt) :: rest =>
    if isKept o.keep f then (i, f, dt, targetDt o.conv o.exc f dt) :: selectedFrom o (i + 1) rest
    else selectedFrom o (i + 1) rest

def selected (o : Opts N D) (schema : List (N × D)) : List (Nat × N × D × D) :=
  selectedFrom o 0 schema

/-- `data[fname]` of a structured array: the `i`-th entry of every row -/
def column (rows : List (List V)) (i : Nat) : Except Err (List V) :=
  mapE (fun r => match r[i]? with
    | some v => .ok v
    | none => .error .indexError) rows

/-- `_len` of a freshly built `DataFieldRecordArray`: length of the first field, 0 without fields -/
def arrLen (cols : List (Col N D V)) : Nat :=
  match cols with
  | [] => 0
  | c :: _ => c.cells.length

def openFile (fs : P → Option (File N D V)) (p : P) : Except Err (File N D V) :=
  match fs p with
  | some f => .ok f
  | none => .error .fileMissing

/- The code converts cells on two different paths: `np.copyto(field_arr, column)` in the
`DataFieldRecordArray` constructor (casting rule 'same_kind': a kind-changing conversion is a
`TypeError`, integers wrap) and the element assignment `data[fname][ridx] = row[fidx]` in the
memory-efficient row loop (floats are truncated, an integer that does not fit is an
`OverflowError`).  Both are parameters with an error result; `cast` (total) is numpy's value
conversion used by `np.append` (always to the promoted dtype) and by the specification. -/
variable (castCopy castAssign : D → D → V → Except Err V) (cast : D → D → V → V)

/-- `DataFieldRecordArray(ndarray, keep_fields, dtype_conversions, except_fields)`:
column projection + conversion (`np.empty` + `np.copyto`). -/
def ctorNd (o : Opts N D) (f : File N D V) : Except Err (Arr N D V) :=
  match mapE (fun (s : Nat × N × D × D) =>
      match column f.rows s.1 with
      | .ok c =>
        match mapE (castCopy s.2.2.1 s.2.2.2) c with
        | .ok c' => .ok (Col.mk s.2.1 s.2.2.2 c')
        | .error e => .error e
      | .error e => .error e) (selected o f.schema) with
  | .error e => .error e
  | .ok cols => .ok ⟨cols, arrLen cols⟩

/-- `NPYFileLoader._load_file_time_efficiently` -/
def loadFileTime (fs : P → Option (File N D V)) (p : P) (o : Opts N D) : Except Err (Arr N D V) :=
  match openFile fs p with
  | .error e => .error e
  | .ok f => ctorNd castCopy o f

/-- inner loop `for fname in data.keys(): data[fname][ridx] = row[fidx]` — the values -/
def rowVals (sel : List (Nat × N × D × D)) (row : List V) : Except Err (List V) :=
  mapE (fun (s : Nat × N × D × D) => match row[s.1]? with
    | some v => castAssign s.2.2.1 s.2.2.2 v
    | none => .error .indexError) sel

/-- … and the assignments into the pre-allocated columns -/
def assignRow (data : List (List (Option V))) (ridx : Nat) (vals : List V) : List (List (Option V)) :=
  List.zipWith (fun col v => col.set ridx (some v)) data vals

/-- the row loop of `_load_file_memory_efficiently`: `k` rows still to do, `ridx` the current row,
`mm` the current memory map, re-opened (`reopen`) after every row with `ridx % bs == 0`. -/
def memRows (reopen : Except Err (File N D V)) (bs : Nat) (sel : List (Nat × N × D × D)) :
    Nat → Nat → File N D V → List (List (Option V)) → Except Err (List (List (Option V)))
  | 0, _, _, data => .ok data
  | k + 1, ridx, mm, data =>
    match mm.rows[ridx]? with
    | none => .error .indexError
    | some row =>
      match rowVals castAssign sel row with
      | .error e => .error e
      | .ok vals =>
        if bs = 0 then .error .zeroDivision
        else if ridx % bs = 0 then
          match reopen with
          | .error e => .error e
          | .ok mm' => memRows reopen bs sel k (ridx + 1) mm' (assignRow data ridx vals)
        else memRows reopen bs sel k (ridx + 1) mm (assignRow data ridx vals)

/-- an `np.empty` column is usable only when every cell was assigned -/
def freeze (col : List (Option V)) : Except Err (List V) :=
  mapE (fun c => match c with
    | some v => .ok v
    | none => .error .uninit) col

def mkCols (sel : List (Nat × N × D × D)) (cols : List (List V)) : List (Col N D V) :=
  List.zipWith (fun s c => Col.mk s.2.1 s.2.2.2 c) sel cols

/-- `NPYFileLoader._load_file_memory_efficiently` -/
def loadFileMem (fs : P → Option (File N D V)) (bs : Nat) (p : P) (o : Opts N D) :
    Except Err (Arr N D V) :=
  match openFile fs p with
  | .error e => .error e
  | .ok mm =>
    let sel := selected o mm.schema
    let n := mm.rows.length
    match memRows castAssign (openFile fs p) bs sel n 0 mm (sel.map fun _ => List.replicate n none) with
    | .error e => .error e
    | .ok data =>
      match mapE freeze data with
      | .error e => .error e
      | .ok cols => .ok ⟨mkCols sel cols, arrLen (mkCols sel cols)⟩

def loadFile (mode : Mode) (fs : P → Option (File N D V)) (bs : Nat) (p : P) (o : Opts N D) :
    Except Err (Arr N D V) :=
  match mode with
  | .time => loadFileTime castCopy fs p o
  | .memory => loadFileMem castAssign fs bs p o

def findCol (cols : List (Col N D V)) (n : N) : Option (Col N D V) :=
  cols.find? (fun c => decide (c.name = n))

variable (promote : D → D → D)

/-- `DataFieldRecordArray.append`: every field of `a` is extended by the equally named field of `b`
(`np.append`, with numpy's dtype promotion); additional fields of `b` are ignored. -/
def appendArr (a b : Arr N D V) : Except Err (Arr N D V) :=
  match mapE (fun (c : Col N D V) =>
      match findCol b.cols c.name with
      | none => .error .keyError
      | some c' =>
        let d := promote c.dt c'.dt
        .ok (Col.mk c.name d (c.cells.map (cast c.dt d) ++ c'.cells.map (cast c'.dt d)))) a.cols with
  | .error e => .error e
  | .ok cs => .ok ⟨cs, a.len + b.len⟩

/-- "Load possible subsequent data files by appending to the first data." -/
def appendAll (load : P → Except Err (Arr N D V)) : Arr N D V → List P → Except Err (Arr N D V)
  | a, [] => .ok a
  | a, p :: ps =>
    match load p with
    | .error e => .error e
    | .ok b =>
      match appendArr cast promote a b with
      | .error e => .error e
      | .ok ab => appendAll load ab ps

/-- `NPYFileLoader.load_data` -/
def npyLoad (mode : Mode) (fs : P → Option (File N D V)) (bs : Nat) (paths : List P) (o : Opts N D) :
    Except Err (Arr N D V) :=
  match paths with
  | [] => .error .indexError
  | p :: ps =>
    match loadFile castCopy castAssign mode fs bs p o with
    | .error e => .error e
    | .ok a => appendAll cast promote (fun q => loadFile castCopy castAssign mode fs bs q o) a ps

/-! ### parquet: `read_table(columns = kept fields present in the file)`, `concat_tables`, constructor -/


/-- a `pyarrow.Table`: columns (name, dtype, cells) -/
abbrev PqTable (N D V : Type) := List (N × D × List V)

/-- `pq.read_table(path, columns=[f for f in schema if f in keep_fields])`: the kept columns of the
file, in file order -/
def pqRead (keep : Option (List N)) (f : File N D V) : Except Err (PqTable N D V) :=
  mapE (fun (s : Nat × N × D × D) =>
      match column f.rows s.1 with
      | .ok c => .ok (s.2.1, s.2.2.1, c)
      | .error e => .error e) (selected (⟨keep, [], []⟩ : Opts N D) f.schema)

def pqSchema (t : PqTable N D V) : List (N × D) := t.map (fun c => (c.1, c.2.1))

/-- the loop over the subsequent files: `read_table`, then `pa.concat_tables([table, next_table])`
(equal schemas required, columns appended) -/
def pqAll (fs : P → Option (File N D V)) (keep : Option (List N)) :
    PqTable N D V → List P → Except Err (PqTable N D V)
  | t, [] => .ok t
  | t, p :: ps =>
    match openFile fs p with
    | .error e => .error e
    | .ok f =>
      match pqRead keep f with
      | .error e => .error e
      | .ok u =>
        if pqSchema t = pqSchema u then
          pqAll fs keep (List.zipWith (fun a b => (a.1, a.2.1, a.2.2 ++ b.2.2)) t u) ps
        else .error .schemaMismatch

/-- `DataFieldRecordArray(table, ParquetDataTableAccessor(), keep_fields, conversions, except)` -/
def ctorPq (o : Opts N D) (t : PqTable N D V) : Except Err (Arr N D V) :=
  match mapE (fun (c : N × D × List V) =>
      match mapE (castCopy c.2.1 (targetDt o.conv o.exc c.1 c.2.1)) c.2.2 with
      | .ok c' => .ok (Col.mk c.1 (targetDt o.conv o.exc c.1 c.2.1) c')
      | .error e => .error e) (t.filter (fun c => isKept o.keep c.1)) with
  | .error e => .error e
  | .ok cols => .ok ⟨cols, arrLen cols⟩

/-- `ParquetFileLoader.load_data` -/
def parquetLoad (fs : P → Option (File N D V)) (paths : List P) (o : Opts N D) :
    Except Err (Arr N D V) :=
  match paths with
  | [] => .error .indexError
  | p :: ps =>
    match openFile fs p with
    | .error e => .error e
    | .ok f =>
      match pqRead o.keep f with
      | .error e => .error e
      | .ok t =>
        match pqAll fs o.keep t ps with
        | .error e => .error e
        | .ok tab => ctorPq castCopy o tab

/-! ### pickle files: `PKLFileLoader.load_data` returns the unpickled object of every file -/

/-- the result of the pkl loader: the object itself for one file, the list of objects otherwise -/
inductive PklResult (O : Type)
  | one (o : O)
  | many (os : List O)
  deriving DecidableEq, Repr

/-- the loop over the files (`data.append(obj)`), all keyword arguments are ignored -/
def pklObjects {O : Type} (fs : P → Option O) : List P → Except Err (List O)
  | [] => .ok []
  | p :: ps =>
    match fs p with
    | none => .error .fileMissing
    | some o =>
      match pklObjects fs ps with
      | .error e => .error e
      | .ok os => .ok (o :: os)

/-- `if len(data) == 1: data = data[0]` -/
def pklLoad {O : Type} (fs : P → Option O) (paths : List P) : Except Err (PklResult O) :=
  match pklObjects fs paths with
  | .error e => .error e
  | .ok [o] => .ok (.one o)
  | .ok os => .ok (.many os)

/-! ### text files: header = field names, every column float64 -/

/-- `TextFileLoader._load_file`: `np.loadtxt(usecols = kept columns, dtype = float64 for every
column)` yields the table of the kept columns, every one read as `f8` (an empty selection is
refused); it then goes through the `DataFieldRecordArray` constructor with the same options. -/
def csvLoadFile (f8 : D) (fs : P → Option (File N D V)) (p : P) (o : Opts N D) : Except Err (Arr N D V) :=
  match openFile fs p with
  | .error e => .error e
  | .ok f =>
    if (selected (⟨o.keep, [], []⟩ : Opts N D) f.schema).isEmpty then .error .noColumns
    else
      match pqRead o.keep f with
      | .error e => .error e
      | .ok t => ctorPq castCopy o (t.map (fun c => (c.1, f8, c.2.2.map (cast c.2.1 f8))))

def csvLoad (f8 : D) (fs : P → Option (File N D V)) (paths : List P) (o : Opts N D) : Except Err (Arr N D V) :=
  match paths with
  | [] => .error .indexError
  | p :: ps =>
    match csvLoadFile castCopy cast f8 fs p o with
    | .error e => .error e
    | .ok a => appendAll cast promote (fun q => csvLoadFile castCopy cast f8 fs q o) a ps

end generic

/-! ### path resolution: `Dataset.get_abs_pathfilename_list`

A listed file is an absolute path file name or one relative to the data set's root directory
(`join` = `os.path.join(root_dir, ·)`).  The loop appends one resolved name per listed entry. -/

inductive PathEntry (P : Type)
  | abs (p : P)
  | rel (p : P)
  deriving DecidableEq, Repr

def resolveEntry {P : Type} (join : P → P) : PathEntry P → P
  | .abs p => p
  | .rel p => join p

/-- the loop of `get_abs_pathfilename_list` (`acc` = `abs_pathfilename_list` so far) -/
def absPathsGo {P : Type} (join : P → P) : List (PathEntry P) → List P → List P
  | [], acc => acc
  | e :: es, acc => absPathsGo join es (acc ++ [resolveEntry join e])

def getAbsPaths {P : Type} (join : P → P) (entries : List (PathEntry P)) : List P :=
  absPathsGo join entries []

/-! ### the file lists of a data set are its own objects (aliasing as state)

List objects live in a heap (object id = index).  The caller owns a list object and hands it to the
`exp_pathfilename_list` / `mc_pathfilename_list` / `grl_pathfilename_list` setter (also called by the
constructor); the setter stores `list(pathfilenames)`, a *new* object holding a copy.  Afterwards the
caller may go on changing its own object. -/

inductive ListOp (P : Type)
  | append (p : P)
  | pop
  | reverse
  | clear
  deriving DecidableEq, Repr

def ListOp.apply {P : Type} : ListOp P → List P → List P
  | .append p, l => l ++ [p]
  | .pop, l => l.dropLast
  | .reverse, l => l.reverse
  | .clear, _ => []

/-- write access to one list object -/
def heapModify {P : Type} (heap : List (List P)) (id : Nat) (f : List P → List P) : List (List P) :=
  match heap[id]? with
  | none => heap
  | some l => heap.set id (f l)

/-- the setter as coded: `self._exp_pathfilename_list = list(pathfilenames)` — allocate a new object
with the current value of the caller's object; returns the new heap and the id the data set keeps -/
def defineCopy {P : Type} (heap : List (List P)) (src : Nat) : Option (List (List P) × Nat) :=
  match heap[src]? with
  | none => none
  | some l => some (heap ++ [l], heap.length)

/-- a setter that keeps the caller's object (`self._exp_pathfilename_list = pathfilenames`) -/
def defineAlias {P : Type} (heap : List (List P)) (src : Nat) : Option (List (List P) × Nat) :=
  match heap[src]? with
  | none => none
  | some _ => some (heap, src)

/-- the caller changes its own list object `src` -/
def callerOps {P : Type} (heap : List (List P)) (src : Nat) (ops : List (ListOp P)) : List (List P) :=
  ops.foldl (fun h op => heapModify h src op.apply) heap

/-- the file list the data set sees after: definition from the caller's object, then caller changes -/
def fileListAfter {P : Type} (define : List (List P) → Nat → Option (List (List P) × Nat))
    (initial : List P) (ops : List (ListOp P)) : Option (List P) :=
  match define [initial] 0 with
  | none => none
  | some (heap, ref) => (callerOps heap 0 ops)[ref]?

/-! ### data field stages, renaming, Dataset.load_data / load_and_prepare_data -/

structure Stages where
  dpExp : Nat
  dpMc : Nat
  anExp : Nat
  anMc : Nat

section dataset
variable {N D V P : Type} [DecidableEq N] [DecidableEq D]

/-- `DataFieldStages.or_check(stage, stages)` for an `int` stages argument -/
def orCheck (stage stages : Nat) : Bool := (stage &&& stages) != 0

/-- `DataFields.get_joint_names` -/
def jointNames (table : List (N × Nat)) (stages : Nat) : List N :=
  (table.filter (fun p => orCheck p.2 stages)).map (·.1)

/-- `{**cfg['datafields'], **dataset.datafields}` -/
def mergeTables (cfg ds : List (N × Nat)) : List (N × Nat) :=
  cfg.map (fun p => match ds.lookup p.1 with
    | some s => (p.1, s)
    | none => p)
  ++ ds.filter (fun p => (cfg.lookup p.1).isNone)

/-- `{v: k for (k, v) in orig2new.items()}.get(name)`: the last original name renamed to `name` -/
def invLookup (ren : List (N × N)) (n : N) : Option N :=
  (ren.reverse.find? (fun p => decide (p.2 = n))).map (·.1)

/-- `_conv_new2orig_field_names` -/
def new2orig (ren : List (N × N)) (names : List N) : List N :=
  names.map (fun n => match invLookup ren n with
    | some o => o
    | none => n)

/-- `dict.pop(key)` on the field dictionary -/
def dictPop (cols : List (Col N D V)) (n : N) : Option (Col N D V × List (Col N D V)) :=
  match cols with
  | [] => none
  | c :: cs =>
    if c.name = n then some (c, cs)
    else match dictPop cs n with
      | none => none
      | some (x, rest) => some (x, c :: rest)

/-- `dict[key] = value`: in place when the key exists, appended otherwise -/
def dictSet (cols : List (Col N D V)) (c : Col N D V) : List (Col N D V) :=
  match cols with
  | [] => [c]
  | x :: xs => if x.name = c.name then c :: xs else x :: dictSet xs c

/-- the loop of `DataFieldRecordArray.rename_fields` on a copy of the field dictionary (`stale` =
`field_name_list`, which is only refreshed after the loop): pop the old name, refuse (KeyError) when
a field with the new name exists at that moment, else add the field under the new name. -/
def renameGo (stale : List N) : List (N × N) → List (Col N D V) → Except Err (List (Col N D V))
  | [], cols => .ok cols
  | (o, n) :: rest, cols =>
    if o ∈ stale then
      match dictPop cols o with
      | none => .error .keyError
      | some (c, cols') =>
        if n ∈ cols'.map (·.name) then .error .keyError
        else renameGo stale rest (dictSet cols' { c with name := n })
    else renameGo stale rest cols

def renameFields (ren : List (N × N)) (a : Arr N D V) : Except Err (Arr N D V) :=
  match renameGo (a.cols.map (·.name)) ren a.cols with
  | .error e => .error e
  | .ok cols => .ok { a with cols := cols }

/-- `DataFieldRecordArray.tidy_up` (`_len` is kept) -/
def tidyUp (keep : List N) (a : Arr N D V) : Arr N D V :=
  { a with cols := a.cols.filter (fun c => decide (c.name ∈ keep)) }

/-- `_get_missing_keys` of `assert_data_format` -/
def missingKeys (names req : List N) : List N := req.filter (fun r => decide (r ∉ names))

/-- what `Dataset.load_data` / `load_and_prepare_data` depend on -/
structure DsCfg (N D : Type) where
  cfgFields : List (N × Nat)   -- cfg['datafields']
  dsFields : List (N × Nat)    -- Dataset.datafields
  expRen : List (N × N)        -- exp_field_name_renaming_dict
  mcRen : List (N × N)         -- mc_field_name_renaming_dict
  keep : List N                -- user keep_fields
  conv : List (D × D)          -- dtc_dict
  exc : Option (List N)        -- dtc_except_fields

def DsCfg.merged (c : DsCfg N D) : List (N × Nat) := mergeTables c.cfgFields c.dsFields

def keepExp (st : Stages) (c : DsCfg N D) : List N :=
  new2orig c.expRen (jointNames c.merged (st.dpExp ||| st.anExp) ++ c.keep)

def keepMc (st : Stages) (c : DsCfg N D) : List N :=
  new2orig c.expRen (jointNames c.merged (st.dpExp ||| st.anExp) ++ c.keep) ++
  new2orig c.mcRen (jointNames c.merged (st.dpExp ||| st.anExp ||| st.dpMc ||| st.anMc) ++ c.keep)

def excOrig (ren : List (N × N)) (exc : Option (List N)) : List N :=
  match exc with
  | none => []
  | some e => new2orig ren e

/-- one of the two halves of `Dataset.load_data` (`None` without files) -/
def loadPart (loader : List P → Opts N D → Except Err (Arr N D V)) (paths : List P)
    (keep : List N) (ren : List (N × N)) (c : DsCfg N D) : Except Err (Option (Arr N D V)) :=
  if paths.isEmpty then .ok none
  else
    match loader paths ⟨some keep, c.conv, excOrig ren c.exc⟩ with
    | .error e => .error e
    | .ok a =>
      match renameFields ren a with
      | .error e => .error e
      | .ok a' => .ok (some a')

/-- `Dataset.load_data` -/
def loadData (st : Stages) (loader : List P → Opts N D → Except Err (Arr N D V))
    (c : DsCfg N D) (expPaths mcPaths : List P) :
    Except Err (Option (Arr N D V) × Option (Arr N D V)) :=
  match loadPart loader expPaths (keepExp st c) c.expRen c with
  | .error e => .error e
  | .ok e =>
    match loadPart loader mcPaths (keepMc st c) c.mcRen c with
    | .error e => .error e
    | .ok m => .ok (e, m)

def tidyOpt (keep : List N) : Option (Arr N D V) → Option (Arr N D V)
  | none => none
  | some a => some (tidyUp keep a)

def namesOpt : Option (Arr N D V) → Option (List N)
  | none => none
  | some a => some (a.cols.map (·.name))

/-- `assert_data_format` for the stage table `table` -/
def assertFormat (st : Stages) (table : List (N × Nat)) (e m : Option (Arr N D V)) (livetime : Bool) :
    Except Err Unit :=
  let badE : Bool := match e with
    | none => false
    | some a => !(missingKeys (a.cols.map (·.name)) (jointNames table st.anExp)).isEmpty
  let badM : Bool := match m with
    | none => false
    | some a => !(missingKeys (a.cols.map (·.name)) (jointNames table (st.anExp ||| st.anMc))).isEmpty
  if badE then .error .keyError
  else if badM then .error .keyError
  else if !livetime then .error .noLivetime
  else .ok ()

/-- `Dataset.load_and_prepare_data` with the stage table used for the tidy-up and the final
assertion as a parameter (`table`), `prep` = the data preparation functions. -/
def loadAndPrepareWith (table : List (N × Nat)) (st : Stages)
    (loader : List P → Opts N D → Except Err (Arr N D V))
    (prep : Option (Arr N D V) × Option (Arr N D V) → Except Err (Option (Arr N D V) × Option (Arr N D V)))
    (c : DsCfg N D) (expPaths mcPaths : List P) (livetime : Bool) :
    Except Err (Option (Arr N D V) × Option (Arr N D V)) :=
  match loadData st loader c expPaths mcPaths with
  | .error e => .error e
  | .ok d =>
    match prep d with
    | .error e => .error e
    | .ok (e, m) =>
      let e' := tidyOpt (jointNames table st.anExp ++ c.keep) e
      let m' := tidyOpt (jointNames table (st.anExp ||| st.anMc) ++ c.keep) m
      match assertFormat st table e' m' livetime with
      | .error err => .error err
      | .ok () => .ok (e', m')

/-- the code as it is now: the merged table, as in `load_data` -/
def loadAndPrepare (st : Stages) (loader : List P → Opts N D → Except Err (Arr N D V))
    (prep : Option (Arr N D V) × Option (Arr N D V) → Except Err (Option (Arr N D V) × Option (Arr N D V)))
    (c : DsCfg N D) (expPaths mcPaths : List P) (livetime : Bool) :=
  loadAndPrepareWith c.merged st loader prep c expPaths mcPaths livetime

/-- the code before the repair: configuration-level table only -/
def loadAndPrepareCfgOnly (st : Stages) (loader : List P → Opts N D → Except Err (Arr N D V))
    (prep : Option (Arr N D V) × Option (Arr N D V) → Except Err (Option (Arr N D V) × Option (Arr N D V)))
    (c : DsCfg N D) (expPaths mcPaths : List P) (livetime : Bool) :=
  loadAndPrepareWith c.cfgFields st loader prep c expPaths mcPaths livetime

/-! ### histories of loads on one shared `Config`

`Dataset.load_data` reads `cfg['datafields']` and builds the merged table as a *new* dictionary
(`{**cfg['datafields'], **self._datafields}`): the configuration is an input that is not written.
`loadAndPrepareS` returns the post-state of the configuration-level table next to the result;
`runHistoryWith step` runs a list of loads on one configuration, threading what each load leaves in
`cfg['datafields']` (`runHistory`: the code as it is). -/

/-- `load_and_prepare_data` as a state transformer on the configuration-level stage table -/
def loadAndPrepareS (st : Stages) (loader : List P → Opts N D → Except Err (Arr N D V))
    (prep : Option (Arr N D V) × Option (Arr N D V) → Except Err (Option (Arr N D V) × Option (Arr N D V)))
    (c : DsCfg N D) (expPaths mcPaths : List P) (livetime : Bool) :
    List (N × Nat) × Except Err (Option (Arr N D V) × Option (Arr N D V)) :=
  (c.cfgFields, loadAndPrepare st loader prep c expPaths mcPaths livetime)

/-- one load of a history: a data set (everything but the shared configuration-level table) -/
structure LoadReq (N D P : Type) where
  dsFields : List (N × Nat)
  expRen : List (N × N)
  mcRen : List (N × N)
  keep : List N
  conv : List (D × D)
  exc : Option (List N)
  expPaths : List P
  mcPaths : List P
  livetime : Bool

def LoadReq.cfg (r : LoadReq N D P) (cfgTable : List (N × Nat)) : DsCfg N D :=
  ⟨cfgTable, r.dsFields, r.expRen, r.mcRen, r.keep, r.conv, r.exc⟩

/-- a history of loads on one configuration; `step` = one load as a state transformer -/
def runHistoryWith
    (step : DsCfg N D → List P → List P → Bool →
      List (N × Nat) × Except Err (Option (Arr N D V) × Option (Arr N D V))) :
    List (N × Nat) → List (LoadReq N D P) →
      List (Except Err (Option (Arr N D V) × Option (Arr N D V)))
  | _, [] => []
  | cfg, r :: rs =>
    (step (r.cfg cfg) r.expPaths r.mcPaths r.livetime).2 ::
      runHistoryWith step (step (r.cfg cfg) r.expPaths r.mcPaths r.livetime).1 rs

/-- the code as it is -/
def runHistory (st : Stages) (loader : List P → Opts N D → Except Err (Arr N D V))
    (prep : Option (Arr N D V) × Option (Arr N D V) → Except Err (Option (Arr N D V) × Option (Arr N D V)))
    (cfg : List (N × Nat)) (rs : List (LoadReq N D P)) :=
  runHistoryWith (loadAndPrepareS st loader prep) cfg rs

/-! data preparation functions used by the driver: derived field / removed field -/

inductive PrepOp (N : Type)
  | dup (onMc : Bool) (src dst : N)   -- data.X.append_field(dst, data.X[src].copy())
  | del (onMc : Bool) (name : N)      -- data.X.remove_field(name)

def prepArr (op : PrepOp N) (a : Arr N D V) : Except Err (Arr N D V) :=
  match op with
  | .dup _ src dst =>
    match findCol a.cols src with
    | none => .error .keyError
    | some c =>
      match findCol a.cols dst with
      | some _ => .error .keyError
      | none => .ok { a with cols := a.cols ++ [{ c with name := dst }] }
  | .del _ n =>
    match dictPop a.cols n with
    | none => .error .keyError
    | some (_, rest) => .ok { a with cols := rest }

def PrepOp.onMc : PrepOp N → Bool
  | .dup b _ _ => b
  | .del b _ => b

def prepRun : List (PrepOp N) → Option (Arr N D V) × Option (Arr N D V) →
    Except Err (Option (Arr N D V) × Option (Arr N D V))
  | [], d => .ok d
  | op :: ops, (e, m) =>
    if op.onMc then
      match m with
      | none => .error .keyError
      | some a => match prepArr op a with
        | .error err => .error err
        | .ok a' => prepRun ops (e, some a')
    else
      match e with
      | none => .error .keyError
      | some a => match prepArr op a with
        | .error err => .error err
        | .ok a' => prepRun ops (some a', m)

end dataset

/-! ### the concrete instance run by the driver: four dtypes, cells as integers
(integer dtypes: the value; float dtypes: the IEEE bit pattern) -/

inductive DT | f8 | f4 | i8 | i4
  deriving DecidableEq, Repr

def wrap32 (v : Int) : Int := (v + 2147483648) % 4294967296 - 2147483648

def f8OfBits (v : Int) : Float := Float.ofBits v.toNat.toUInt64
def f4OfBits (v : Int) : Float32 := Float32.ofBits v.toNat.toUInt32
def bitsOfF8 (x : Float) : Int := Int.ofNat x.toBits.toNat
def bitsOfF4 (x : Float32) : Int := Int.ofNat x.toBits.toNat

/-- numpy's C cast between the four dtypes (float → int truncates; only used inside the value
range of the target) -/
def castCell (a b : DT) (v : Int) : Int :=
  match a, b with
  | .f8, .f8 | .f4, .f4 | .i8, .i8 | .i4, .i4 | .i4, .i8 => v
  | .f8, .f4 => bitsOfF4 (f8OfBits v).toFloat32
  | .f4, .f8 => bitsOfF8 (f4OfBits v).toFloat
  | .i8, .i4 => wrap32 v
  | .i8, .f8 | .i4, .f8 => bitsOfF8 (Float.ofInt v)
  | .i8, .f4 | .i4, .f4 => bitsOfF4 (Float.ofInt v).toFloat32
  | .f8, .i8 => (f8OfBits v).toInt64.toInt
  | .f8, .i4 => wrap32 (f8OfBits v).toInt64.toInt
  | .f4, .i8 => (f4OfBits v).toFloat.toInt64.toInt
  | .f4, .i4 => wrap32 (f4OfBits v).toFloat.toInt64.toInt

def isFloatDT : DT → Bool
  | .f8 | .f4 => true
  | _ => false

/-- `np.copyto(..., casting='same_kind')`: float → int is refused, everything else is the C cast -/
def castCopyCell (a b : DT) (v : Int) : Except Err Int :=
  if isFloatDT a && !isFloatDT b then .error .castKind else .ok (castCell a b v)

/-- element assignment `arr[i] = scalar`: an integer that does not fit the target is refused,
everything else (float → int truncation included) is the C cast -/
def castAssignCell (a b : DT) (v : Int) : Except Err Int :=
  match a, b with
  | .i8, .i4 => if v < -2147483648 ∨ 2147483647 < v then .error .castOverflow else .ok v
  | _, _ => .ok (castCell a b v)

/-- `numpy.promote_types` on the four dtypes -/
def promoteDT (a b : DT) : DT :=
  match a, b with
  | .f8, _ | _, .f8 => .f8
  | .f4, .f4 => .f4
  | .f4, .i8 | .i8, .f4 | .f4, .i4 | .i4, .f4 => .f8
  | .i8, _ | _, .i8 => .i8
  | .i4, .i4 => .i4

end Load
