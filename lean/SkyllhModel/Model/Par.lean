/-
  Model of `skyllh.core.multiproc.parallelize` — property C09 (parallel map).

  * `chunkSizes` / `arraySplit` : `numpy.array_split(args_list, ncpu)`.
  * A transition system with one agent per process.  The master has pid 0; the child process with
    pid `j+1` (`processes[j]` in the code) is called *child `j`* here.
      - child: `running t` (about to start local task `t`; hook point `'task'`), then `rqueue.put` →
        `queued` (hook point `'queued'`), then the `None` log sentinel → `finished` (hook point
        `'done'`), then process exit → `exited code`.  A fault (`Fault`) turns the corresponding step
        into `exited code`; `exitQueuedPartial` additionally leaves a truncated message in the pipe
        (`poison`), `exitAfterSentinel` is a death after everything was delivered.
      - master: own chunk (`own t`; `mfault`: the function raises there → `stop_processes(); raise`),
        then the gather loop as coded, then `join`, the exit codes, the concatenation by pid
        (`collect`); `done r` | `error` (= an exception leaves `parallelize`) | `recv` (blocked for ever
        in a receive).  `raiseStop` = `stop_processes()` + `raise`: every running child is terminated.
      - The two waiting loops are `[exit-code snapshot; get; (sleep)]*`.  One master step is the `get`,
        which uses the snapshot taken *before* it (state field `ended`), followed by the snapshot for
        the next `get`: the order "exit codes first, queue second" is part of the model
        (`Swapped.masterStep` has it the other way round and raises in fault-free runs).
    `masterStep` is the gather loop of the current code, `Orig.masterStep` the loop of the pinned commit
    (kept for the `_counterexample` theorems and for replaying the hang witnesses).
  * The scheduler is the only nondeterminism: `run cfg σ k` is the state after `k` steps of the
    schedule `σ : Nat → Agent`.  A step of an agent that cannot move (sleeping poll that learns nothing,
    timed-out `get`, `join`, exited child) leaves the state unchanged.
  * `getNcpu` / `assembleTrials`: `get_ncpu` and the result assembly of `Analysis.do_trials`.

  `pid_result_list_map` (a dict keyed by pid) is represented by the slot `got` of each child — a dict
  keyed by pid *is* one optional slot per pid, overwrite included.  The shared result queue `rq` and
  the per-child log queues `lq` hold what is visible in the pipe.  The feeder threads are not agents of
  their own: a put is visible at once.  What a feeder thread adds to the behaviour is (a) a hard exit
  may lose a queued item or cut it in two (`exitQueued _ false`, `exitQueuedPartial`), (b) a normal exit
  waits for the flush (so "exited ⇒ delivered", used by the snapshot argument), (c) result and sentinel
  travel through different pipes and may become visible in either order — the master reads the result
  first and the sentinel only afterwards, so the earlier visibility of the sentinel changes no step.
-/

namespace Par

/-! ### `numpy.array_split` -/

/-- section sizes of `np.array_split(ary, ncpu)` for `n = len(ary)`:
`n % ncpu` sections of size `n / ncpu + 1`, the rest of size `n / ncpu`. -/
def chunkSizes (n ncpu : Nat) : List Nat :=
  (List.range ncpu).map fun i => n / ncpu + (if i < n % ncpu then 1 else 0)

/-- cut a list into consecutive pieces of the given sizes (`sary[st:end]` for the cumulated sizes) -/
def splitSizes {α : Type} : List Nat → List α → List (List α)
  | [], _ => []
  | k :: ks, xs => xs.take k :: splitSizes ks (xs.drop k)

def arraySplit {α : Type} (xs : List α) (ncpu : Nat) : List (List α) :=
  splitSizes (chunkSizes xs.length ncpu) xs

/-! ### processes -/

/-- what can go wrong in a child (the fault kinds of the property's quantifier) -/
inductive Fault where
  /-- the function (or the hook) raises at the start of local task `t`: exit code 1, no result -/
  | raiseAt (t : Nat)
  /-- `os._exit(code)` at the start of local task `t` -/
  | exitAt (t : Nat) (code : Nat)
  /-- `os._exit(code)` between `rqueue.put` and the log sentinel; `flushed = false`: the queue's feeder
  thread had not written the result into the pipe yet, the result is lost -/
  | exitQueued (code : Nat) (flushed : Bool)
  /-- `os._exit(code)` after `rqueue.put` while the feeder thread is in the middle of writing the result:
  only a part of the pickled message is in the pipe (possible as soon as the result is larger than the
  pipe buffer, 64 KiB) -/
  | exitQueuedPartial (code : Nat)
  /-- the process dies with exit code `code` after it has delivered its result and the log sentinel
  (killed, or crashed while shutting down); `code = 0` is a normal exit -/
  | exitAfterSentinel (code : Nat)
  deriving DecidableEq, Repr

inductive WPhase where
  | running (t : Nat)
  | queued
  | finished
  | exited (code : Nat)
  deriving DecidableEq, Repr, Hashable

inductive LogItem where
  | record
  | sentinel
  deriving DecidableEq, Repr, Hashable

structure Child (β : Type) where
  phase : WPhase
  /-- the local `result_list` of `worker_wrapper` -/
  acc : List β
  /-- visible content of `lqueue_list[pid]` -/
  lq : List LogItem
  /-- `pid_result_list_map[pid]` of the master -/
  got : Option (List β)
  deriving BEq, Hashable, Repr

structure Cfg (α β : Type) where
  /-- number of child processes, `ncpu - 1` -/
  nchild : Nat
  /-- `sub_args_list_list[pid]` -/
  chunk : Nat → List α
  /-- result of `func` in process `pid` for its local task `t` with argument `x`
  (the dependence on `pid` and `t` covers the per-process random state) -/
  f : Nat → Nat → α → β
  /-- fault of child `j` -/
  fault : Nat → Option Fault
  /-- does every task emit a log record? -/
  logs : Bool
  /-- the function raises in the master process at its local task `t` -/
  mfault : Option Nat := none

structure State (M β : Type) where
  m : M
  /-- `result_list_0` -/
  acc0 : List β
  /-- visible content of the shared result queue: (child index, result list) -/
  rq : List (Nat × List β)
  ws : Nat → Child β
  /-- `some p`: after the next `p` messages the result pipe continues with a truncated message (its
  writer died in the middle of the write); everything behind it is unreadable -/
  poison : Option Nat
  /-- the exit-code snapshot the master took before its next `get`: in the gather loop "some child
  whose result is missing has terminated" (`ended_procs` non-empty), while draining the log queue of a
  child "that child has terminated" (`proc_ended`) -/
  ended : Bool

inductive Agent where
  | master
  | child (j : Nat)
  deriving DecidableEq, Repr

variable {α β M : Type}

def setChild (s : State M β) (j : Nat) (c : Child β) : State M β :=
  { s with ws := fun i => if i = j then c else s.ws i }

def isExited : WPhase → Bool
  | .exited _ => true
  | _ => false

/-- exit code if the fault fires at the start of local task `t` -/
def taskFault : Option Fault → Nat → Option Nat
  | some (.raiseAt t'), t => if t' = t then some 1 else none
  | some (.exitAt t' c), t => if t' = t then some c else none
  | _, _ => none

/-- exit code if the child dies right after `rqueue.put`, `flushed` as given -/
def queuedFault : Option Fault → Bool → Option Nat
  | some (.exitQueued c b), b' => if b = b' then some c else none
  | _, _ => none

/-- exit code if the child dies while its result is being written into the pipe -/
def partialFault : Option Fault → Option Nat
  | some (.exitQueuedPartial c) => some c
  | _ => none

/-- exit code of a process that has delivered everything -/
def exitCode : Option Fault → Nat
  | some (.exitAfterSentinel c) => c
  | _ => 0

/-- `stop_processes()`: every child that is still running is terminated (SIGTERM) and joined -/
def terminateAll (ws : Nat → Child β) : Nat → Child β :=
  fun j => if isExited (ws j).phase then ws j else { ws j with phase := .exited 143 }

/-- the first truncated message ends the readable part of the pipe -/
def markPoison (p : Option Nat) (len : Nat) : Option Nat :=
  match p with
  | some q => some q
  | none => some len

/-- one step of child `j` (`worker_wrapper` with `pid = j+1`) -/
def childStep (cfg : Cfg α β) (s : State M β) (j : Nat) : State M β :=
  if j < cfg.nchild then
    let c := s.ws j
    match c.phase with
    | .running t =>
      match (cfg.chunk (j+1))[t]? with
      | some x =>
        match taskFault (cfg.fault j) t with
        | some code => setChild s j { c with phase := .exited code }
        | none => setChild s j { c with
            phase := .running (t+1)
            acc := c.acc ++ [cfg.f (j+1) t x]
            lq := if cfg.logs then c.lq ++ [.record] else c.lq }
      | none =>
        -- the loop over `sub_args_list` is finished: `rqueue.put((pid, result_list, tl))`
        match queuedFault (cfg.fault j) false with
        | some code => setChild s j { c with phase := .exited code }
        | none =>
          match partialFault (cfg.fault j) with
          | some code =>
            { setChild s j { c with phase := .exited code } with
              poison := markPoison s.poison s.rq.length }
          | none => { setChild s j { c with phase := .queued } with rq := s.rq ++ [(j, c.acc)] }
    | .queued =>
      match queuedFault (cfg.fault j) true with
      | some code => setChild s j { c with phase := .exited code }
      | none => setChild s j { c with phase := .finished, lq := c.lq ++ [.sentinel] }
    | .finished => setChild s j { c with phase := .exited (exitCode (cfg.fault j)) }
    | .exited _ => s
  else s

/-! ### bounded quantifiers over the children `0 … n-1` -/

def countTo : Nat → (Nat → Bool) → Nat
  | 0, _ => 0
  | n+1, p => countTo n p + (if p n then 1 else 0)

def anyTo : Nat → (Nat → Bool) → Bool
  | 0, _ => false
  | n+1, p => anyTo n p || p n

def allTo : Nat → (Nat → Bool) → Bool
  | 0, _ => true
  | n+1, p => allTo n p && p n

def sumTo : Nat → (Nat → Nat) → Nat
  | 0, _ => 0
  | n+1, g => sumTo n g + g n

/-- `len(pid_result_list_map) - 1` -/
def filled (n : Nat) (ws : Nat → Child β) : Nat := countTo n fun j => (ws j).got.isSome

/-- `for pid in range(len(pid_result_list_map)): result_list += pid_result_list_map[pid]` for the
children `0 … n-1`; `none` is the `KeyError` of a missing pid -/
def collect : Nat → (Nat → Child β) → Option (List β)
  | 0, _ => some []
  | n+1, ws =>
    match collect n ws, (ws n).got with
    | some r, some x => some (r ++ x)
    | _, _ => none

/-! ### the master of the current code -/

inductive MPhase (β : Type) where
  | own (t : Nat)
  | gather
  | drain (j : Nat)
  | join
  | done (r : List β)
  | error
  /-- blocked in `recv_bytes` for the rest of a truncated message: `rqueue.get(block=False)` polls
  without blocking, but reads the message with a blocking receive -/
  | recv
  deriving DecidableEq, Hashable, Repr

def MPhase.terminal : MPhase β → Bool
  | .done _ => true
  | .error => true
  | _ => false

/-- `ended_procs` non-empty: some child whose result is missing has terminated -/
def snapG (cfg : Cfg α β) (s : State M β) : Bool :=
  anyTo cfg.nchild (fun j => (s.ws j).got.isNone && isExited (s.ws j).phase)

/-- `stop_processes()` followed by `raise` -/
def raiseStop (s : State (MPhase β) β) : State (MPhase β) β :=
  { s with m := .error, ws := terminateAll s.ws }

/-- have all children exited with code 0? -/
def allZero (cfg : Cfg α β) (s : State M β) : Bool :=
  allTo cfg.nchild (fun j => decide ((s.ws j).phase = .exited 0))

/-- One step of the master.  The two loops that wait for a child are `[snapshot of the exit code(s);
get; (sleep)]*`; a step of the model is `get` (which uses the snapshot taken *before* it, the field
`ended`) followed by the snapshot for the next `get` — so "exit code looked at before the queue" is
part of the model, and a step that finds nothing and learns nothing leaves the state unchanged. -/
def masterStep (cfg : Cfg α β) (s : State (MPhase β) β) : State (MPhase β) β :=
  match s.m with
  | .own t =>
    -- `master_wrapper` inside `try … except BaseException: stop_processes(); raise`
    match (cfg.chunk 0)[t]? with
    | some x =>
      if cfg.mfault = some t then raiseStop s
      else { s with m := .own (t+1), acc0 := s.acc0 ++ [cfg.f 0 t x] }
    | none => { s with m := .gather, ended := snapG cfg s }
  | .gather =>
    -- `while len(pid_result_list_map) <= len(processes):`
    if filled cfg.nchild s.ws < cfg.nchild then
      if s.poison = some 0 then { s with m := .recv }
      else
      match s.rq with
      | (j, r) :: rest =>
        { setChild s j { s.ws j with got := some r } with
          rq := rest, m := .drain j, poison := s.poison.map (· - 1),
          ended := isExited (s.ws j).phase }               -- `proc_ended` for the first log `get`
      | [] =>
        -- `queue.Empty`: `ended_procs` (taken before the `get`) non-empty → stop and raise
        if s.ended then raiseStop s
        else { s with ended := snapG cfg s }               -- sleep, next `ended_procs`
    else { s with m := .join }
  | .drain j =>
    if j < cfg.nchild then
      match (s.ws j).lq with
      | .sentinel :: rest =>
        { setChild s j { s.ws j with lq := rest } with m := .gather, ended := snapG cfg s }
      | .record :: rest =>
        { setChild s j { s.ws j with lq := rest } with ended := isExited (s.ws j).phase }
      | [] =>
        if s.ended then raiseStop s
        else { s with ended := isExited (s.ws j).phase }
    else { s with m := .error }
  | .join =>
    -- `proc.join()` for all, then the exit codes, then the concatenation by pid
    if allTo cfg.nchild (fun j => isExited (s.ws j).phase) then
      if allZero cfg s then
        match collect (filled cfg.nchild s.ws) s.ws with
        | some r => { s with m := .done (s.acc0 ++ r) }
        | none => { s with m := .error }
      else { s with m := .error }
    else s
  | .done _ => s
  | .error => s
  | .recv => s

def step (cfg : Cfg α β) (s : State (MPhase β) β) : Agent → State (MPhase β) β
  | .master => masterStep cfg s
  | .child j => childStep cfg s j

def initChild : Child β := { phase := .running 0, acc := [], lq := [], got := none }

def init : State (MPhase β) β :=
  { m := .own 0, acc0 := [], rq := [], ws := fun _ => initChild, poison := none, ended := false }

def run (cfg : Cfg α β) (σ : Nat → Agent) : Nat → State (MPhase β) β
  | 0 => init
  | k+1 => step cfg (run cfg σ k) (σ k)

/-- what `parallelize` has to return: the results of the chunks, chunk after chunk -/
def full (cfg : Cfg α β) (pid : Nat) : List β := (cfg.chunk pid).mapIdx (cfg.f pid)

def expected (cfg : Cfg α β) : List β := (List.range (cfg.nchild + 1)).flatMap (full cfg)

/-- the configuration `parallelize(func, args_list, ncpu)` starts with -/
def mkCfg (f : Nat → Nat → α → β) (args : List α) (ncpu : Nat) (fault : Nat → Option Fault)
    (logs : Bool) (mfault : Option Nat := none) : Cfg α β :=
  -- `ncpu ≥ 1` is assumed (`get_ncpu` and `numpy.array_split` raise `ValueError` otherwise; the driver
  -- answers `error` for `ncpu = 0`); all theorems about `mkCfg` carry the hypothesis `1 ≤ ncpu`
  { nchild := ncpu - 1
    chunk := fun pid => (arraySplit args ncpu)[pid]?.getD []
    f := f, fault := fault, logs := logs, mfault := mfault }

/-! ### the master of the pinned commit (gather loop `for proc in processes`) -/

namespace Orig

inductive MPhase (β : Type) where
  | own (t : Nat)
  /-- polling the result queue in the iteration of `processes[i]` -/
  | poll (i : Nat)
  /-- draining the log queue of child `j` in the iteration of `processes[i]` -/
  | drain (i j : Nat)
  | join
  | done (r : List β)
  | error
  deriving DecidableEq, Hashable, Repr

def MPhase.terminal : MPhase β → Bool
  | .done _ => true
  | .error => true
  | _ => false

/-- the master's own chunk (`master_wrapper`); an exception of the function leaves `parallelize`
at once, the children keep running -/
def ownStep (cfg : Cfg α β) (s : State M β) (t : Nat) (next : Nat → M) (after error : M) : State M β :=
  match (cfg.chunk 0)[t]? with
  | some x =>
    if cfg.mfault = some t then { s with m := error }
    else { s with m := next (t+1), acc0 := s.acc0 ++ [cfg.f 0 t x] }
  | none => { s with m := after }

/-- `for proc in processes: proc.join()` followed by the concatenation by pid (exit codes ignored) -/
def joinStep (cfg : Cfg α β) (s : State M β) (done : List β → M) (error : M) : State M β :=
  if allTo cfg.nchild (fun j => isExited (s.ws j).phase) then
    match collect (filled cfg.nchild s.ws) s.ws with
    | some r => { s with m := done (s.acc0 ++ r) }
    | none => { s with m := error }
  else s

def masterStep (cfg : Cfg α β) (s : State (MPhase β) β) : State (MPhase β) β :=
  match s.m with
  | .own t => ownStep cfg s t .own (.poll 0) .error
  | .poll i =>
    if i < cfg.nchild then
      match s.rq with
      | (j, r) :: rest =>
        { setChild s j { s.ws j with got := some r } with rq := rest, m := .drain i j }
      | [] =>
        match (s.ws i).phase with
        | .exited code => if code ≠ 0 then { s with m := .error } else s   -- exit code 0: neither branch
        | _ => s                                                            -- `time.sleep(0.01)`
    else { s with m := .join }
  | .drain i j =>
    match (s.ws j).lq with
    | .sentinel :: rest => { setChild s j { s.ws j with lq := rest } with m := .poll (i+1) }
    | .record :: rest => setChild s j { s.ws j with lq := rest }
    | [] => s                                                               -- blocking `get()`
  | .join => joinStep cfg s .done .error
  | .done _ => s
  | .error => s

def step (cfg : Cfg α β) (s : State (MPhase β) β) : Agent → State (MPhase β) β
  | .master => masterStep cfg s
  | .child j => childStep cfg s j

def init : State (MPhase β) β :=
  { m := .own 0, acc0 := [], rq := [], ws := fun _ => initChild, poison := none, ended := false }

def run (cfg : Cfg α β) (σ : Nat → Agent) : Nat → State (MPhase β) β
  | 0 => init
  | k+1 => step cfg (run cfg σ k) (σ k)

end Orig

/-! ### a variant of the current gather loop with the two reads swapped: `rqueue.get` first, the exit
codes only after `queue.Empty` (kept for `c09_check_after_get_counterexample`) -/

namespace Swapped

inductive MPhase (β : Type) where
  | own (t : Nat)
  | gather
  /-- `queue.Empty` has been raised, the exit codes are looked at next -/
  | check
  | drain (j : Nat)
  | join
  | done (r : List β)
  | error
  deriving DecidableEq, Hashable, Repr

def masterStep (cfg : Cfg α β) (s : State (MPhase β) β) : State (MPhase β) β :=
  match s.m with
  | .own t => Orig.ownStep cfg s t .own .gather .error
  | .gather =>
    if filled cfg.nchild s.ws < cfg.nchild then
      match s.rq with
      | (j, r) :: rest => { setChild s j { s.ws j with got := some r } with rq := rest, m := .drain j }
      | [] => { s with m := .check }
    else { s with m := .join }
  | .check => if snapG cfg s then { s with m := .error } else { s with m := .gather }
  | .drain j =>
    match (s.ws j).lq with
    | .sentinel :: rest => { setChild s j { s.ws j with lq := rest } with m := .gather }
    | .record :: rest => setChild s j { s.ws j with lq := rest }
    | [] => if isExited (s.ws j).phase then { s with m := .error } else s
  | .join => Orig.joinStep cfg s .done .error
  | .done _ => s
  | .error => s

def step (cfg : Cfg α β) (s : State (MPhase β) β) : Agent → State (MPhase β) β
  | .master => masterStep cfg s
  | .child j => childStep cfg s j

def init : State (MPhase β) β :=
  { m := .own 0, acc0 := [], rq := [], ws := fun _ => initChild, poison := none, ended := false }

def run (cfg : Cfg α β) (σ : Nat → Agent) : Nat → State (MPhase β) β
  | 0 => init
  | k+1 => step cfg (run cfg σ k) (σ k)

end Swapped

/-! ### `get_ncpu` (how `Analysis.do_trials` and the `IsParallelizable` classes obtain `ncpu`) -/

/-- a Python value as far as `get_ncpu` looks at it: `None`, an `int` (`bool` included, `True == 1`), or
anything else (float, numpy integer, str …) -/
inductive PyVal where
  | none
  | int (n : Int)
  | other
  deriving DecidableEq, Repr

/-- `get_ncpu(cfg, local_ncpu)`: the local setting, else `cfg['multiproc']['ncpu']`, else 1;
`TypeError` if it is not an `int`, `ValueError` if it is `< 1` -/
def getNcpu (cfgNcpu localNcpu : PyVal) : Except String Nat :=
  let ncpu := if localNcpu = .none then cfgNcpu else localNcpu
  let ncpu := if ncpu = .none then PyVal.int 1 else ncpu
  match ncpu with
  | .int n => if n < 1 then .error "ValueError" else .ok n.toNat
  | _ => .error "TypeError"

/-- `Analysis.do_trials`: `ncpu = get_ncpu(…)`, `result_list = parallelize(…)`, then
`result_list[0].dtype` (an `IndexError` for an empty list) and the record array in list order -/
def assembleTrials (rs : List β) : Except String (List β) :=
  match rs with
  | [] => .error "IndexError"
  | _ => .ok rs

/-! ### schedules -/

/-- agent number `i` of a system with `n` children: 0 = master, `i+1` = child `i` -/
def agentOf (i : Nat) : Agent := if i = 0 then .master else .child (i - 1)

/-- a finite prefix followed by round-robin over master and the `n` children -/
def sched (pre : List Agent) (n : Nat) (k : Nat) : Agent :=
  match pre[k]? with
  | some a => a
  | none => agentOf (k % (n + 1))

end Par
