/-
  Round 7 widening of the C14 model (own file; `Model/Livetime.lean` is shared with C10 and only imported).

  New here, each mirroring the code as it is:
  * `assertIntegrity`  — all five raising branches of `Livetime.assert_mjd_intervals_integrity`, in their order,
                         with the two shape constants as parameters (regenerated from the source: `Gen.C14`);
  * `construct`        — the validating constructor / setter on an array description;
  * `nIntervals`, `timeWindow`, `timeStart`, `timeStop`, `integratedLivetime`
                       — the read-only properties and the static `get_integrated_livetime`;
  * `uptoArg` / `isOnVec` — the scalar / sequence forms of `get_livetime_upto` (`issequence` decides the form of
                         the result) and `is_on` (always an array);
  * `drawMany`         — `draw_ontimes(rss, size, t_min, t_max)` for a whole vector of deviates (size 0 included);
  * `fromGrlFiles`, `fromI3Dataset` — `skyllh/i3/livetime.py`: rows of all files concatenated in file order, then
                         the same `hstack` + constructor as `from_grl_data`; the two guards of `from_I3Dataset`;
  * `dataSubsetFull`   — `get_data_subset` with its two type guards and separate exp / mc masks;
-/
import SkyllhModel.Model.Livetime

namespace LivetimeR7
open Livetime

/-- the exceptions the modelled code raises (class + site) -/
inductive Err where
  | typeNotNdarray | typeNotF64 | valNdim | valCols | valNotMonotone      -- assert_mjd_intervals_integrity
  | typeNotI3Dataset | valNoGrlFiles                                       -- from_I3Dataset
  | typeData | typeLivetime                                                -- get_data_subset
  | index                                                                  -- IndexError of an array access
  deriving DecidableEq, Repr

/-- what `assert_mjd_intervals_integrity` looks at: is it an ndarray, is the dtype float64, the shape, and the
elements in logical (C) order (`arr.flat`). -/
structure ArrDesc (F : Type) where
  isNdarray : Bool
  isF64 : Bool
  shape : List Nat
  data : List F

variable {F : Type}

section integ
variable [LE F] [DecidableLE F]

/-- `Livetime.assert_mjd_intervals_integrity(arr)`: the five checks in the order of the code. `reqNdim` and
`reqCols` are the literals `2` and `2` of the source (`Gen.C14.reqNdim`, `Gen.C14.reqCols`). -/
def assertIntegrity (reqNdim reqCols : Nat) (d : ArrDesc F) : Except Err Unit :=
  if !d.isNdarray then .error .typeNotNdarray
  else if !d.isF64 then .error .typeNotF64
  else if d.shape.length != reqNdim then .error .valNdim
  else if d.shape[1]? != some reqCols then .error .valCols
  else if !integrity d.data then .error .valNotMonotone
  else .ok ()

/-- the validating constructor / property setter: on success the object holds (a copy of) the rows. -/
def construct (reqNdim reqCols : Nat) (d : ArrDesc F) : Except Err (List (F × F)) :=
  match assertIntegrity reqNdim reqCols d with
  | .error e => .error e
  | .ok () => .ok (unflat d.data)

/-- the array description of a well-formed (N,2) float64 ndarray holding the given rows -/
def descOf (ivs : List (F × F)) : ArrDesc F :=
  { isNdarray := true, isF64 := true, shape := [ivs.length, 2], data := flat ivs }

end integ

/-- `n_uptime_mjd_intervals` = `shape[0]` -/
def nIntervals (ivs : List (F × F)) : Nat := ivs.length

/-- `time_start` = `arr[0, 0]` (`none` = IndexError on an array without rows) -/
def timeStart (ivs : List (F × F)) : Option F := ivs.head?.map Prod.fst
/-- `time_stop` = `arr[-1, 1]` -/
def timeStop (ivs : List (F × F)) : Option F := ivs.getLast?.map Prod.snd
/-- `time_window` = `(arr[0, 0], arr[-1, 1])` -/
def timeWindow (ivs : List (F × F)) : Option (F × F) :=
  match timeStart ivs, timeStop ivs with
  | some a, some b => some (a, b)
  | _, _ => none

/-- `Livetime.get_integrated_livetime(livetime)`: a scalar is handed through, a `Livetime` gives `.livetime`. -/
def integratedLivetime [Add F] [Sub F] [OfNat F 0] : Sum F (List (F × F)) → F
  | .inl x => x
  | .inr ivs => livetimeSeq ivs

section vec
variable [LE F] [DecidableLE F]

/-- `is_on(mjd)`: `atleast_1d`, so a scalar gives a one-element array -/
def isOnVec (ivs : List (F × F)) (ts : List F) : List Bool := ts.map (isOn ivs)

variable [Add F] [Sub F] [OfNat F 0]

/-- element-wise `get_livetime_upto` on `atleast_1d(mjd)` (`none` = IndexError) -/
def uptoVec (ivs : List (F × F)) (ts : List F) : Option (List F) := ts.mapM (upto ivs)

/-- the argument of `get_livetime_upto`: a scalar or a sequence; `issequence(mjd)` decides the form of the result -/
inductive UArg (F : Type) where
  | scalar (t : F)
  | seq (ts : List F)

inductive URes (F : Type) where
  | scalar (x : F)       -- `livetimes.item()`
  | seq (xs : List F)

def uptoArg (ivs : List (F × F)) : UArg F → Option (URes F)
  | .scalar t => (upto ivs t).map URes.scalar
  | .seq ts => (uptoVec ivs ts).map URes.seq

end vec

section draw
variable [LE F] [LT F] [DecidableLE F] [DecidableLT F] [Add F] [Sub F] [Mul F] [OfNat F 0]

/-- `draw_ontimes(rss, size, t_min, t_max)` for the vector of deviates `rss.random.uniform(0, 1, size)`.
`size = 0` never fails (no element is indexed); the window restriction is still evaluated first. -/
def drawMany (ivs : List (F × F)) (tmin tmax : Option F) (us : List F) : Option (List F) :=
  match tmin, tmax with
  | none, none => us.mapM (drawOn ivs)
  | _, _ =>
    match ivs.head?, ivs.getLast? with
    | some f, some l =>
      match betweenIdx ivs (tmin.getD f.1) (tmax.getD l.2) with
      | some r => us.mapM (drawOn r)
      | none => none
    | _, _ => none

end draw

section grl
variable [LE F] [DecidableLE F]

/-- `I3Livetime.from_grl_files(pathfilenames)`: the file loader concatenates the rows of all files in the order
of the list (a single `str` is a one-element list); then `hstack` of the two columns and the constructor. -/
def fromGrlFiles (files : List (List (F × F))) : Option (List (F × F)) :=
  fromGrl (files.flatten.map Prod.fst) (files.flatten.map Prod.snd)

/-- `I3Livetime.from_I3Dataset(ds)`: `TypeError` unless `ds` is an `I3Dataset`, `ValueError` when it has no GRL
files, else `from_grl_files` on the files of the dataset (`none` inside = the constructor's `ValueError`). -/
def fromI3Dataset (isI3 : Bool) (files : List (List (F × F))) : Except Err (Option (List (F × F))) :=
  if !isI3 then .error .typeNotI3Dataset
  else if files.length == 0 then .error .valNoGrlFiles
  else .ok (fromGrlFiles files)

end grl

section subset
variable [LE F] [LT F] [DecidableLE F] [DecidableLT F] [Add F] [Sub F] [OfNat F 0]

/-- `get_data_subset(data, livetime, t_start, t_stop)` with the two `isinstance` guards and separate masks for
the experimental and the Monte-Carlo events; the restricted intervals go through the `Livetime` constructor
again (`.valNotMonotone` if it rejected them, `.index` for an IndexError of the window query). -/
def dataSubsetFull (dataOk ltOk : Bool) (ivs : List (F × F)) (expT mcT : List F) (t0 t1 : F) :
    Except Err (List Bool × List Bool × List (F × F) × F) :=
  if !dataOk then .error .typeData
  else if !ltOk then .error .typeLivetime
  else match betweenIdx ivs t0 t1 with
    | none => .error .index
    | some r =>
      if integrity (flat r) then .ok (subsetMask expT t0 t1, subsetMask mcT t0 t1, r, livetimeSeq r)
      else .error .valNotMonotone

end subset

/-! ### The object with the full validating setter and the read-only views, at any point of a history -/
section history
variable [LE F] [LT F] [DecidableLE F] [DecidableLT F] [Add F] [Sub F] [Mul F] [OfNat F 0]

inductive OpR7 (F : Type) where
  | setArr (d : ArrDesc F)      -- `lt.uptime_mjd_intervals_arr = <any array-like>`
  | qN                          -- `lt.n_uptime_mjd_intervals`
  | qWindow                     -- `lt.time_window`
  | qLivetime                   -- `lt.livetime`
  | base (q : Op F)             -- `is_on`, `get_uptime_intervals_between`, `get_livetime_upto`, `draw_ontimes`

inductive AnsR7 (F : Type) where
  | ok
  | err (e : Err)               -- the setter raised, state unchanged
  | nat (n : Nat)
  | window (w : Option (F × F))
  | val (x : F)
  | base (a : Ans F)

/-- one call on the object; `n c` are the shape constants of the integrity check -/
def objStepR7 (n c : Nat) (held : List (F × F)) : OpR7 F → List (F × F) × AnsR7 F
  | .setArr d => match construct n c d with
    | .ok ivs => (ivs, .ok)
    | .error e => (held, .err e)
  | .qN => (held, .nat (nIntervals held))
  | .qWindow => (held, .window (timeWindow held))
  | .qLivetime => (held, .val (livetimeSeq held))
  | .base q => (held, .base (answer held q))

def objRunR7 (n c : Nat) (held : List (F × F)) : List (OpR7 F) → List (F × F) × List (AnsR7 F)
  | [] => (held, [])
  | op :: ops =>
    let (h', a) := objStepR7 n c held op
    let (h'', as) := objRunR7 n c h' ops
    (h'', a :: as)

end history

end LivetimeR7
