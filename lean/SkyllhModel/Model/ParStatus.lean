/-
  Model of the status queue `squeue` of `skyllh.core.multiproc.parallelize` — property C09.

  In an interactive session (`pbar.is_shown`) every worker puts one status record per finished task
  into `squeue`; the master reads the queue only after each task of its *own* chunk (and, since the
  repair, while it joins the workers).  A `multiprocessing.Queue` is a feeder-thread buffer in the
  writing process in front of a pipe of finite capacity, and a process cannot exit before its feeder
  buffer is empty.  In batch mode `squeue is None`: nothing is written.

  One worker, one pipe; `cap` = capacity of the pipe in records.
-/
namespace ParStatus

structure Cfg where
  /-- `pbar.is_shown`: the status queue exists -/
  shown : Bool
  /-- capacity of the pipe, in status records -/
  cap : Nat
  /-- number of tasks of the worker -/
  tasks : Nat
  /-- the master empties the status queue while it joins the workers -/
  drainAtJoin : Bool

structure St where
  /-- tasks finished by the worker -/
  done : Nat
  /-- records in the feeder buffer of the worker -/
  buf : Nat
  /-- records in the pipe -/
  pipe : Nat
  /-- the master still works on its own chunk -/
  reading : Bool
  exited : Bool
  deriving DecidableEq, Repr

inductive Ag where
  | worker | feeder | master | masterEnd
  deriving DecidableEq, Repr

def step (c : Cfg) (s : St) : Ag → St
  | .worker =>
    if s.exited then s
    else if s.done < c.tasks then
      { s with done := s.done + 1, buf := s.buf + (if c.shown then 1 else 0) }   -- `squeue.put(...)`
    else if s.buf = 0 then { s with exited := true }                              -- exit joins the feeder
    else s
  | .feeder => if 0 < s.buf ∧ s.pipe < c.cap then { s with buf := s.buf - 1, pipe := s.pipe + 1 } else s
  | .master =>                                                   -- `while not squeue.empty(): squeue.get()`
    if (s.reading || c.drainAtJoin) && decide (0 < s.pipe) then { s with pipe := 0 } else s
  | .masterEnd => if s.reading then { s with reading := false } else s

def init : St := { done := 0, buf := 0, pipe := 0, reading := true, exited := false }

def run (c : Cfg) (σ : Nat → Ag) : Nat → St
  | 0 => init
  | k+1 => step c (run c σ k) (σ k)

def agOf (i : Nat) : Ag := if i = 0 then .worker else if i = 1 then .feeder else if i = 2 then .master else .masterEnd

/-- finite prefix, then round-robin over the four agents -/
def sched (pre : List Ag) (k : Nat) : Ag :=
  match pre[k]? with
  | some a => a
  | none => agOf (k % 4)

end ParStatus
