/-
  Model of the sky-coordinate utilities of skyllh — property C19 (rotation lemmas shared with C18).

    skyllh/core/utils/coords.py            angular_separation, rotate_spherical_vector,
                                           rotate_signal_events_on_sphere (astropy formulas)
    skyllh/i3/utils/coords.py              azi_to_ra_transform, ra_to_azi_transform, hor_to_equ_transform
    skyllh/analyses/i3/publicdata_ps/utils.py   psi_to_dec_and_ra

  Written once against the standard notation classes + `Transc` + the two extra law-free functions
  of `Coords.Fns` (`floor`, `atan2`; `Scalar.lean` has neither).  The same definitions run on
  `Float` in `Driver/C19.lean` (same order of IEEE operations as the numpy code) and are reasoned
  about over ℝ in `Props/C19.lean` (instance `Coords.Fns ℝ` in `Proofs/Coords.lean`).
-/
import SkyllhModel.Scalar

namespace Coords

/-- the two functions the coordinate code needs beyond `Transc` (no laws; not arithmetic) -/
class Fns (F : Type) where
  floor : F → F
  /-- `atan2 y x` (numpy.arctan2) -/
  atan2 : F → F → F

instance : Fns Float := ⟨Float.floor, Float.atan2⟩

structure V3 (F : Type) where
  x : F
  y : F
  z : F

variable {F : Type}

/-! ### two ways of spreading per-source values over the (source, event) pairs of a trial -/

/-- `np.take(arr, src_idxs)`: the value of the source each pair names -/
def takeSrc {α : Type} (xs : List α) (srcIdxs : List Nat) : List (Option α) := srcIdxs.map (xs[·]?)

/-- `TrialDataManager.broadcast_sources_array_to_values_array` from position `start` on: consecutive
blocks, one per source, of as many entries as the source has pairs (it only *counts* the pairs) -/
def blockBroadcastFrom {α : Type} (start : Nat) : List α → List Nat → List α
  | [], _ => []
  | x :: rest, srcIdxs => List.replicate (srcIdxs.count start) x ++ blockBroadcastFrom (start + 1) rest srcIdxs

def blockBroadcast {α : Type} (xs : List α) (srcIdxs : List Nat) : List α := blockBroadcastFrom 0 xs srcIdxs

section alg
variable [Add F] [Sub F] [Mul F]

def dot (u v : V3 F) : F := u.x * v.x + u.y * v.y + u.z * v.z

def cross (u v : V3 F) : V3 F :=
  ⟨u.y * v.z - u.z * v.y, u.z * v.x - u.x * v.z, u.x * v.y - u.y * v.x⟩

/-- Rodrigues' formula as `rotate_spherical_vector` evaluates it:
`R = (1-c)·n nᵀ + c·1 + s·[n]ₓ`, result `R·w`
(`[n]ₓ = skv - skvᵀ = [[0,-n₂,n₁],[n₂,0,-n₀],[-n₁,n₀,0]]`). -/
def rodrigues [Neg F] [OfNat F 0] [OfNat F 1] (n : V3 F) (c s : F) (w : V3 F) : V3 F :=
  let omc : F := 1 - c
  let r (nj nk dc nx : F) : F := omc * (nj * nk) + dc + s * nx
  ⟨r n.x n.x c 0 * w.x + r n.x n.y 0 (-n.z) * w.y + r n.x n.z 0 n.y * w.z,
   r n.y n.x 0 n.z * w.x + r n.y n.y c 0 * w.y + r n.y n.z 0 (-n.x) * w.z,
   r n.z n.x 0 (-n.y) * w.x + r n.z n.y 0 n.x * w.y + r n.z n.z c 0 * w.z⟩

end alg

section num
variable [Add F] [Sub F] [Mul F] [Div F] [Neg F] [LT F] [DecidableLT F]
  [OfNat F 0] [OfNat F 1] [OfNat F 2] [Transc F]

def absF (x : F) : F := if x < 0 then -x else x

/-- `x[x < 0.] = 0.; x[x > 1.] = 1.` -/
def clip01 (x : F) : F := if x < 0 then 0 else if 1 < x then 1 else x

/-- `c[c > 1] = 1; c[c < -1] = -1` -/
def clipPM1 (c : F) : F := if 1 < c then 1 else if c < -1 then -1 else c

def sq (x : F) : F := x * x

/-- the haversine argument `x` of `angular_separation` (before clipping) -/
def havX (ra1 dec1 ra2 dec2 : F) : F :=
  let dra := absF (ra1 - ra2)
  let ddec := absF (dec1 - dec2)
  sq (Transc.sin (ddec / 2)) + Transc.cos dec1 * Transc.cos dec2 * sq (Transc.sin (dra / 2))

/-- `angular_separation(ra1, dec1, ra2, dec2)` -/
def angSep (ra1 dec1 ra2 dec2 : F) : F :=
  2 * Transc.asin (Transc.sqrt (clip01 (havX ra1 dec1 ra2 dec2)))

/-! ### the domain of `arcsin` / `arccos`
numpy returns NaN outside `[-1, 1]`; `Transc.asin/acos` over ℝ are totalised (clamped).  The `…D`
functions make the domain explicit (`none` = NaN), and the `…D` variants of the coordinate functions
below are what the driver executes.  `Props/C19` proves that the *clipped* code never leaves the
domain whatever value rounding produces, and that over ℝ the `…D` variants agree with the total ones. -/

def asinD (x : F) : Option F := if x < -1 then none else if 1 < x then none else some (Transc.asin x)
def acosD (x : F) : Option F := if x < -1 then none else if 1 < x then none else some (Transc.acos x)

/-- the tail of `angular_separation` from the haversine argument `x` on (whatever `x` is) -/
def sepOfX (x : F) : Option F := (asinD (Transc.sqrt (clip01 x))).map (fun a => 2 * a)

/-- `angular_separation` with the NaN domain explicit -/
def angSepD (ra1 dec1 ra2 dec2 : F) : Option F := sepOfX (havX ra1 dec1 ra2 dec2)

/-- the same tail without the two clipping statements (what the code would be without them) -/
def sepOfXUnclipped (x : F) : Option F := (asinD (Transc.sqrt x)).map (fun a => 2 * a)

/-- `angular_separation(..., psi_floor)` -/
def angSepFloor (ra1 dec1 ra2 dec2 : F) (psiFloor : Option F) : F :=
  let psi := angSep ra1 dec1 ra2 dec2
  match psiFloor with
  | none => psi
  | some f => if psi < f then f else psi

/-- the `psi` trial-data field of `get_tdm_field_func_psi` (skyllh/core/utils/tdm.py): one value per
(source index, event index) pair of `tdm.src_evt_idxs`, `angular_separation(evt, src, psi_floor)`.
`none` stands for the `IndexError` of `np.take`. -/
def psiField (srcs evts : List (F × F)) (pairs : List (Nat × Nat)) (psiFloor : Option F) :
    List (Option F) :=
  pairs.map fun p =>
    match srcs[p.1]?, evts[p.2]? with
    | some s, some e => some (angSepFloor e.1 e.2 s.1 s.2 psiFloor)
    | _, _ => none

/-- the Gaussian point-spread density of `GaussianPSFPointLikeSourceSignalSpatialPDF.calculate_pd`
(skyllh/core/signalpdf.py) for one (source, event) pair:
`0.5/(π σ²) · exp(-0.5·(ψ²/σ²))` with `ψ = angular_separation(src, evt)`. -/
def gaussPsfPd (sigma evtRa evtDec srcRa srcDec : F) : F :=
  let sigmaSq := sigma * sigma
  let psi := angSep srcRa srcDec evtRa evtDec
  (1 / 2) / (Transc.pi * sigmaSq) * Transc.exp (-(1 / 2) * (psi * psi / sigmaSq))

/-- the values of `GaussianPSFPointLikeSourceSignalSpatialPDF.calculate_pd`: one density per
(source index, event index) pair, source coordinates gathered with `np.take(…, src_idxs)`, event
coordinates and `ang_err` with `np.take(…, evt_idxs)`; `none` = `IndexError`. -/
def psfField (srcs evts : List (F × F)) (sigmas : List F) (pairs : List (Nat × Nat)) : List (Option F) :=
  pairs.map fun p =>
    match srcs[p.1]?, evts[p.2]?, sigmas[p.2]? with
    | some s, some e, some sg => some (gaussPsfPd sg e.1 e.2 s.1 s.2)
    | _, _, _ => none

/-- unit vector of the direction `(ra, dec)` -/
def unitVec (ra dec : F) : V3 F :=
  ⟨Transc.cos ra * Transc.cos dec, Transc.sin ra * Transc.cos dec, Transc.sin dec⟩

/-- scalar product of the two unit vectors -/
def dotRD (ra1 dec1 ra2 dec2 : F) : F := dot (unitVec ra1 dec1) (unitVec ra2 dec2)

/-- specification form of the separation: the angle between the unit vectors -/
def vecAngle (ra1 dec1 ra2 dec2 : F) : F := Transc.acos (clipPM1 (dotRD ra1 dec1 ra2 dec2))

variable [Fns F]

/-- `x % 1` -/
def frac1 (x : F) : F := x - Fns.floor x

/-- `numpy.mod(a, b)` for `b > 0`: `a - b·⌊a/b⌋` (bit-identical to numpy's fmod-and-adjust for
`a ∈ (-b, 2b)`, which covers every call with arguments in their physical ranges). -/
def modF (a b : F) : F := a - b * Fns.floor (a / b)

def twoPi : F := 2 * Transc.pi

/-- `azi_to_ra_transform(azi, mjd)`; `len` = `_sidereal_length`, `off` = `_sidereal_offset`
(read from the source into `Generated/C19.lean`).  The second `mod` is the repair of the
"np.mod returns exactly 2π" defect. -/
def aziToRa (len off azi mjd : F) : F :=
  let res := frac1 (mjd / len)
  let ra := off + 2 * Transc.pi * res - azi
  modF (modF ra twoPi) twoPi

/-- `ra_to_azi_transform` ("the same function because it is symmetric") -/
def raToAzi (len off ra mjd : F) : F := aziToRa len off ra mjd

/-- `hor_to_equ_transform(azi, zen, mjd)` → `(ra, dec)`, `dec = π − zen` as coded -/
def horToEqu (len off azi zen mjd : F) : F × F := (aziToRa len off azi mjd, Transc.pi - zen)

/-- the point on the circle of opening angle `psi` around the source, circle parameter `t`:
the Cartesian components `(x, y, z)` as `psi_to_dec_and_ra` computes them -/
def psiCircle (srcDec srcRa psi t : F) : V3 F :=
  let a := psi
  let b := Transc.pi / 2 - srcDec
  let c := srcRa
  let sa := Transc.sin a; let ca := Transc.cos a
  let sb := Transc.sin b; let cb := Transc.cos b
  let sc := Transc.sin c; let cc := Transc.cos c
  let st := Transc.sin t; let ct := Transc.cos t
  ⟨(sa * cb * cc) * ct + (sa * sc) * st - (ca * sb * cc),
   -(sa * cb * sc) * ct + (sa * cc) * st + (ca * sb * sc),
   (sa * sb) * ct + (ca * cb)⟩

/-- `(dec, ra)` from the Cartesian components as `psi_to_dec_and_ra` extracts them:
`dec = arctan2(z, hypot(x, y))`, `ra = mod(π − arctan2(y, x), 2π)` — no inverse function with a
restricted domain is involved. -/
def xyzToDecRa (v : V3 F) : F × F :=
  let azi := Fns.atan2 v.y v.x
  let dec := Fns.atan2 v.z (Transc.sqrt (v.x * v.x + v.y * v.y))
  (dec, modF (Transc.pi - azi) twoPi)

/-- `psi_to_dec_and_ra(rss, src_dec, src_ra, psi)` for one event with circle parameter `t`
(the uniform deviate drawn from `rss`) → `(dec, ra)`. -/
def psiToDecRa (srcDec srcRa psi t : F) : F × F := xyzToDecRa (psiCircle srcDec srcRa psi t)

/-- the rotated Cartesian vector of `rotate_spherical_vector` (rotation taking direction 1 onto
direction 2, applied to direction 3) -/
def rotVec (ra1 dec1 ra2 dec2 ra3 dec3 : F) : V3 F :=
  let cosA := clipPM1 (Transc.cos (ra2 - ra1) * Transc.cos dec1 * Transc.cos dec2
                        + Transc.sin dec1 * Transc.sin dec2)
  let alpha := Transc.acos cosA
  let v1 := unitVec ra1 dec1
  let v2 := unitVec ra2 dec2
  let v3 := unitVec ra3 dec3
  let n0 := cross v1 v2
  let norm := Transc.sqrt (n0.x * n0.x + n0.y * n0.y + n0.z * n0.z)
  let n : V3 F := if 0 < norm then ⟨n0.x / norm, n0.y / norm, n0.z / norm⟩ else n0
  rodrigues n cosA (Transc.sin alpha) v3

/-- `(ra, dec)` of a Cartesian vector as `rotate_spherical_vector` extracts it -/
def vecToRaDec (v : V3 F) : F × F :=
  let ra0 := Fns.atan2 v.y v.x
  let ra := ra0 + (if ra0 < 0 then twoPi else 0)
  (modF ra twoPi, Transc.asin (clipPM1 v.z))

/-- `rotate_spherical_vector(ra1, dec1, ra2, dec2, ra3, dec3)` → `(ra, dec)` -/
def rotateSphericalVector (ra1 dec1 ra2 dec2 ra3 dec3 : F) : F × F :=
  vecToRaDec (rotVec ra1 dec1 ra2 dec2 ra3 dec3)

/-! ### astropy's relocation, used by `rotate_signal_events_on_sphere` (and by C18) -/

/-- `astropy.coordinates.angles.utils.position_angle` (wrapped at 360°) -/
def posAngle (lon1 lat1 lon2 lat2 : F) : F :=
  let dl := lon2 - lon1
  let colat := Transc.cos lat2
  let x := Transc.sin lat2 * Transc.cos lat1 - colat * Transc.sin lat1 * Transc.cos dl
  let y := Transc.sin dl * colat
  modF (Fns.atan2 y x) twoPi

/-- `astropy.coordinates.angles.utils.angular_separation` (Vincenty formula) -/
def vincenty (lon1 lat1 lon2 lat2 : F) : F :=
  let sdlon := Transc.sin (lon2 - lon1)
  let cdlon := Transc.cos (lon2 - lon1)
  let slat1 := Transc.sin lat1; let slat2 := Transc.sin lat2
  let clat1 := Transc.cos lat1; let clat2 := Transc.cos lat2
  let num1 := clat2 * sdlon
  let num2 := clat1 * slat2 - slat1 * clat2 * cdlon
  let den := slat1 * slat2 + clat1 * clat2 * cdlon
  Fns.atan2 (Transc.sqrt (num1 * num1 + num2 * num2)) den

/-- `astropy.coordinates.angles.utils.offset_by(lon, lat, posang, distance)` → `(lon, lat)`;
`eps` is astropy's pole threshold `1e-12` on `cos lat`. -/
def offsetBy (eps lon lat posang dist : F) : F × F :=
  let cos_a := Transc.cos dist; let sin_a := Transc.sin dist
  let cos_c := Transc.sin lat;  let sin_c := Transc.cos lat
  let cos_B := Transc.cos posang; let sin_B := Transc.sin posang
  let cos_b := cos_c * cos_a + sin_c * sin_a * cos_B
  let xsin_A := sin_a * sin_B * sin_c
  let xcos_A := cos_a - cos_b * cos_c
  let A := if sin_c < eps then Transc.pi / 2 + cos_c * (Transc.pi / 2 - posang)
           else Fns.atan2 xsin_A xcos_A
  (modF (lon + A) twoPi, Transc.asin cos_b)

/-- `rotate_signal_events_on_sphere(src, evt_true, evt_reco)` → `(ra, dec)` of the relocated
reconstructed direction: same position angle and separation from the source as the reconstructed
direction has from the true direction. -/
def relocate (eps srcRa srcDec trueRa trueDec recoRa recoDec : F) : F × F :=
  offsetBy eps srcRa srcDec (posAngle trueRa trueDec recoRa recoDec)
    (vincenty trueRa trueDec recoRa recoDec)

/-! ### NaN-aware variants (executed by the driver) -/

/-- `alpha = arccos(cos_alpha)` after the two clipping statements of `rotate_spherical_vector` -/
def alphaOfCos (c : F) : Option F := acosD (clipPM1 c)

/-- `rotVec` with the domain of `arccos` explicit -/
def rotVecD (ra1 dec1 ra2 dec2 ra3 dec3 : F) : Option (V3 F) :=
  let c := Transc.cos (ra2 - ra1) * Transc.cos dec1 * Transc.cos dec2
            + Transc.sin dec1 * Transc.sin dec2
  (alphaOfCos c).map fun alpha =>
    let cosA := clipPM1 c
    let v1 := unitVec ra1 dec1
    let v2 := unitVec ra2 dec2
    let v3 := unitVec ra3 dec3
    let n0 := cross v1 v2
    let norm := Transc.sqrt (n0.x * n0.x + n0.y * n0.y + n0.z * n0.z)
    let n : V3 F := if 0 < norm then ⟨n0.x / norm, n0.y / norm, n0.z / norm⟩ else n0
    rodrigues n cosA (Transc.sin alpha) v3

/-- `vecToRaDec` with the domain of `arcsin` explicit (any vector, unit or not) -/
def vecToRaDecD (v : V3 F) : Option (F × F) :=
  (asinD (clipPM1 v.z)).map fun dec => ((vecToRaDec v).1, dec)

def rotateSphericalVectorD (ra1 dec1 ra2 dec2 ra3 dec3 : F) : Option (F × F) :=
  (rotVecD ra1 dec1 ra2 dec2 ra3 dec3).bind vecToRaDecD

/-- astropy's `cos_b` in `offset_by` -/
def offsetCosB (lat posang dist : F) : F :=
  Transc.sin lat * Transc.cos dist + Transc.cos lat * Transc.sin dist * Transc.cos posang

/-- `offset_by` with the domain of its **unclipped** `arcsin(cos_b)` explicit; `cb` is the value
of `cos_b` the arithmetic produced -/
def offsetLatOfCosB (cb : F) : Option F := asinD cb

def offsetByD (eps lon lat posang dist : F) : Option (F × F) :=
  (offsetLatOfCosB (offsetCosB lat posang dist)).map fun d => ((offsetBy eps lon lat posang dist).1, d)

def relocateD (eps srcRa srcDec trueRa trueDec recoRa recoDec : F) : Option (F × F) :=
  offsetByD eps srcRa srcDec (posAngle trueRa trueDec recoRa recoDec)
    (vincenty trueRa trueDec recoRa recoDec)

/-! ### the calls as a whole: argument validation, broadcasting, length checks (Python exceptions = `Except`) -/

inductive CallErr where
  /-- numpy cannot broadcast the argument arrays / the `assert` on equal lengths fails -/
  | shape
  /-- astropy `Latitude`: a declination outside `[-π/2, π/2]` (`ValueError`) -/
  | latitude
  /-- `np.take`: index out of range -/
  | index
deriving DecidableEq, Repr

/-- numpy broadcasting of 1-d arrays: every length is 1 or the common length `m`
(no length other than 1 present: `m = 1`) -/
def bcastLen (lens : List Nat) : Except CallErr Nat :=
  match lens.filter (· != 1) with
  | [] => .ok 1
  | m :: rest => if rest.all (· == m) then .ok m else .error .shape

/-- element `i` of an argument after broadcasting -/
def bget {α : Type} (xs : List α) (i : Nat) : Option α := if xs.length == 1 then xs[0]? else xs[i]?

/-- broadcast a list of argument arrays to rows of equal length -/
def bcastRows {α : Type} (args : List (List α)) : Except CallErr (List (List α)) :=
  match bcastLen (args.map List.length) with
  | .error e => .error e
  | .ok m => .ok ((List.range m).map fun i => args.filterMap fun xs => bget xs i)

/-- `angular_separation` called with four arrays (numpy broadcasting; `none` = NaN) -/
def angSepCall (ra1 dec1 ra2 dec2 : List F) (psiFloor : Option F) : Except CallErr (List (Option F)) :=
  match bcastRows [ra1, dec1, ra2, dec2] with
  | .error e => .error e
  | .ok rows => .ok (rows.map fun r =>
      match r with
      | [a, b, c, d] =>
        (angSepD a b c d).map fun psi => match psiFloor with
          | none => psi
          | some f => if psi < f then f else psi
      | _ => none)

/-- `azi_to_ra_transform` called with two arrays (broadcasting: e.g. one time for all azimuths) -/
def aziToRaCall (len off : F) (azi mjd : List F) : Except CallErr (List F) :=
  match bcastRows [azi, mjd] with
  | .error e => .error e
  | .ok rows => .ok (rows.filterMap fun r => match r with
      | [a, t] => some (aziToRa len off a t)
      | _ => none)

/-- the `assert len(a) == len(b) == …` of the two rotation functions -/
def sameLen (lens : List Nat) : Bool :=
  match lens with
  | [] => true
  | n :: rest => rest.all (· == n)

/-- event `i` of a `rotate_spherical_vector` call -/
def rotateAt (ra1 dec1 ra2 dec2 ra3 dec3 : List F) (i : Nat) : Option (Option (F × F)) :=
  match ra1[i]?, dec1[i]?, ra2[i]?, dec2[i]?, ra3[i]?, dec3[i]? with
  | some a, some b, some c, some d, some e, some f => some (rotateSphericalVectorD a b c d e f)
  | _, _, _, _, _, _ => none

/-- `rotate_spherical_vector` called with six arrays: equal lengths asserted, then event by event -/
def rotateCall (ra1 dec1 ra2 dec2 ra3 dec3 : List F) : Except CallErr (List (Option (F × F))) :=
  if sameLen [ra1.length, dec1.length, ra2.length, dec2.length, ra3.length, dec3.length] then
    .ok ((List.range ra1.length).filterMap (rotateAt ra1 dec1 ra2 dec2 ra3 dec3))
  else .error .shape

/-- astropy `Latitude` validation of one declination (NaN passes: both comparisons are false) -/
def latOk (d : F) : Bool := !(decide (d < -(Transc.pi / 2))) && !(decide (Transc.pi / 2 < d))

/-- event `i` of a `rotate_signal_events_on_sphere` call (right ascensions wrapped by `SkyCoord`) -/
def relocateAt (eps : F) (sRa sDec tRa tDec rRa rDec : List F) (i : Nat) : Option (Option (F × F)) :=
  match sRa[i]?, sDec[i]?, tRa[i]?, tDec[i]?, rRa[i]?, rDec[i]? with
  | some a, some b, some c, some d, some e, some f =>
      some (relocateD eps (modF a twoPi) b (modF c twoPi) d (modF e twoPi) f)
  | _, _, _, _, _, _ => none

/-- `rotate_signal_events_on_sphere(src, true, reco)` called with six arrays: equal lengths asserted,
`SkyCoord` rejects the whole call if *any* declination is outside `[-π/2, π/2]` and wraps the right
ascensions into `[0, 2π)`, then event by event. -/
def relocateCall (eps : F) (sRa sDec tRa tDec rRa rDec : List F) : Except CallErr (List (Option (F × F))) :=
  if sameLen [sRa.length, sDec.length, tRa.length, tDec.length, rRa.length, rDec.length] then
    if (sDec ++ tDec ++ rDec).all latOk then
      .ok ((List.range sRa.length).filterMap (relocateAt eps sRa sDec tRa tDec rRa rDec))
    else .error .latitude
  else .error .shape

/-- the `psi` field as one call: `np.take` raises for the whole call if any index is out of range -/
def psiFieldCall (srcs evts : List (F × F)) (pairs : List (Nat × Nat)) (psiFloor : Option F) :
    Except CallErr (List F) :=
  let vals := psiField srcs evts pairs psiFloor
  if vals.all Option.isSome then .ok (vals.filterMap id) else .error .index

end num

/-- the (source, event) pairs of a trial without event selection, as `TrialDataManager` builds them:
`src_idxs = np.repeat(np.arange(K), n)`, `evt_idxs = np.tile(np.arange(n), K)` -/
def defaultPairs (K n : Nat) : List (Nat × Nat) :=
  (List.range K).flatMap fun k => (List.range n).map fun e => (k, e)

end Coords
