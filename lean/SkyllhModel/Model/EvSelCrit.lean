/-
  Criterion layer of the event-selection model (property C05):
  the per-(source, event) decisions of skyllh/core/event_selection.py, written once against the
  standard notation classes + `Transc` (+ the law-free `FloorMod` below) so that the same
  definitions run on `Float` in the driver and are reasoned about over ℝ in `Props/C05.lean`.

  The float operations are in the order of the Python code:
    src_dec_minus = np.maximum(-np.pi/2, src_dec - delta)
    src_dec_plus  = np.minimum(src_dec + delta, np.pi/2)
    mask_dec      = (ev_dec > src_dec_minus) & (ev_dec < src_dec_plus)
    cosfact       = np.amin(np.cos([src_dec_minus, src_dec_plus]), axis=0)
    dRA_half      = np.amin([2*np.pi, np.fabs(delta / cosfact)], axis=0)
    RA band :  ra_dist = np.fabs(np.mod(ev_ra - src_ra + np.pi, 2*np.pi) - np.pi);  ra_dist < dRA_half
    box     :  ra_diff = np.fabs(ev_ra - src_ra); ra_mod = where(ra_diff >= pi, 2*pi - ra_diff, ra_diff)
               (ra_mod < dRA_half) & mask_dec
    psi func:  psi < func(*axis_data)                      (both sides are passed-through values)
    ang err :  (ang_err >= func(psi)) | (psi < psi_floor),  psi = angular_separation(src, evt)
-/
import SkyllhModel.Scalar

/-- floored modulus `np.mod(x, y)` (result has the sign of `y`); law-free like `Transc`. -/
class FloorMod (F : Type) where
  fmod : F → F → F

namespace FloatImpl
/-- `np.mod` on doubles for the arguments that occur here (`y = 2π > 0`, `|x| ≤ 3π`):
for quotient 0 the result is `x` (exact), for quotient 1 it is `x - y` (exact by Sterbenz), for
quotient −1 it is the rounded `x + y`, exactly as numpy's `fmod` + sign correction. -/
def fmod (x y : Float) : Float :=
  let q := Float.floor (x / y)
  let r := x - q * y
  if r < 0.0 then r + y else if r ≥ y then r - y else r
end FloatImpl

instance : FloorMod Float where
  fmod := FloatImpl.fmod

namespace EvSelCrit

variable {F : Type} [Add F] [Sub F] [Mul F] [Div F] [Neg F] [LT F] [DecidableLT F]
  [LE F] [DecidableLE F] [OfNat F 0] [OfNat F 1] [Transc F]

/-- `np.maximum(a, b)` -/
def maxF (a b : F) : F := if a < b then b else a
/-- `np.minimum(a, b)` -/
def minF (a b : F) : F := if b < a then b else a
/-- `np.fabs` -/
def absF (x : F) : F := if x < 0 then -x else x

def twoPi : F := Transc.pi + Transc.pi
def halfPi : F := Transc.pi / (1 + 1)

def decMinus (dec delta : F) : F := maxF (-(halfPi : F)) (dec - delta)
def decPlus (dec delta : F) : F := minF (dec + delta) (halfPi : F)

/-- declination band criterion (strict on both sides) -/
def inDecBand (dec delta evDec : F) : Bool :=
  decide (decMinus dec delta < evDec) && decide (evDec < decPlus dec delta)

def cosfact (dec delta : F) : F :=
  minF (Transc.cos (decMinus dec delta)) (Transc.cos (decPlus dec delta))

/-- `dRA_half = np.amin([2π, np.fabs(delta / cosfact)])`.  A band that touches a pole has
`cosfact = 0` in exact arithmetic; IEEE gives `delta / 0 = inf` (and `delta / 6e-17` for the rounded
`cos(π/2)`), hence the whole RA ring `2π`.  The division by zero is therefore modelled explicitly
(Lean's `x / 0 = 0` would give the opposite); on `Float` both branches agree with numpy. -/
def dRAhalf (dec delta : F) : F :=
  let c := cosfact dec delta
  if c < 0 then minF (twoPi : F) (absF (delta / c))
  else if 0 < c then minF (twoPi : F) (absF (delta / c))
  else (twoPi : F)

/-- the same with the cap (the literal `2*np.pi` in `np.amin([np.repeat(2*np.pi, K), …])`) as a
parameter: the driver runs it with the value found in the current source; `Proofs/EvSelCrit` shows
that every cap `> π` gives the same decisions (the RA distance never exceeds `π`) and that `π` does not -/
def dRAhalfCap (cap dec delta : F) : F :=
  let c := cosfact dec delta
  if c < 0 then minF cap (absF (delta / c))
  else if 0 < c then minF cap (absF (delta / c))
  else cap

/-- RA distance as coded in `SpatialBoxEventSelectionMethod` -/
def raDistBox (srcRa evRa : F) : F :=
  let d := absF (evRa - srcRa)
  if d < (Transc.pi : F) then d else twoPi - d

/-- RA distance as coded in `RABandEventSectionMethod` -/
def raDistMod [FloorMod F] (srcRa evRa : F) : F :=
  absF (FloorMod.fmod (evRa - srcRa + Transc.pi) (twoPi : F) - Transc.pi)

def inRABand [FloorMod F] (srcRa srcDec delta evRa : F) : Bool :=
  decide (raDistMod srcRa evRa < dRAhalf srcDec delta)

def inRABandCap [FloorMod F] (cap srcRa srcDec delta evRa : F) : Bool :=
  decide (raDistMod srcRa evRa < dRAhalfCap cap srcDec delta)

/-- the RA part of the box criterion, cap as parameter -/
def inBoxRaCap (cap srcRa srcDec delta evRa : F) : Bool :=
  decide (raDistBox srcRa evRa < dRAhalfCap cap srcDec delta)

def inBox (srcRa srcDec delta evRa evDec : F) : Bool :=
  decide (raDistBox srcRa evRa < dRAhalf srcDec delta) && inDecBand srcDec delta evDec

/-- `PsiFuncEventSelectionMethod`: `psi < func(*axis_data)` -/
def psiFunc (psi fval : F) : Bool := decide (psi < fval)

/-- `skyllh.core.utils.coords.angular_separation` (haversine, clipped to [0,1]) -/
def angSep (ra1 dec1 ra2 dec2 : F) : F :=
  let two : F := 1 + 1
  let dRa := absF (ra1 - ra2)
  let dDec := absF (dec1 - dec2)
  let s1 := Transc.sin (dDec / two)
  let s2 := Transc.sin (dRa / two)
  let x := s1 * s1 + Transc.cos dec1 * Transc.cos dec2 * (s2 * s2)
  let x := if x < 0 then 0 else x
  let x := if 1 < x then 1 else x
  two * Transc.asin (Transc.sqrt x)

/-- `AngErrOfPsiEventSelectionMethod` with `func(psi) = a + b * psi` -/
def angErrCrit (a b psiFloor srcRa srcDec evRa evDec angErr : F) : Bool :=
  let psi := angSep srcRa srcDec evRa evDec
  decide (a + b * psi ≤ angErr) || decide (psi < psiFloor)

end EvSelCrit
