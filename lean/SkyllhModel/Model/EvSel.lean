/-
  Index layer of the event-selection model (property C05) — pure `Bool`/`Nat`, core Lean only.

  Mirrors the index construction shared by all methods of skyllh/core/event_selection.py

      mask                 = np.any(mask_sky, axis=0)
      selected_events_idxs = events.indices[mask]
      selected_events      = events[selected_events_idxs]
      idxs                 = np.argwhere(mask_sky[:, mask]);  src_idxs, evt_idxs = idxs[:,0], idxs[:,1]

  the 128-source batching of `SpatialBoxEventSelectionMethod`, the default "all pairs" table
  (`np.repeat(np.arange(K), n)`, `np.tile(np.arange(n), K)`), the dense matrix built from an incoming
  pair table by `AngErrOfPsiEventSelectionMethod` (`scipy.sparse.csr_matrix(...).toarray()`),
  `IntersectionEventSelectionMethod` chaining with `np.take(org1, org2)`, and
  `TrialDataManager.initialize_trial` (select → sort by index field → re-index → default map).

  A mask matrix is a list of rows (one per source), each row a list of `Bool` (one per event).
  `none` stands for a Python exception (IndexError / ValueError).
-/

namespace EvSel

abbrev Pairs := List (Nat × Nat)

/-- boolean-mask indexing `xs[mask]` -/
def compress {α : Type} : List Bool → List α → List α
  | b :: bs, x :: xs => if b then x :: compress bs xs else compress bs xs
  | _, _ => []

/-- `np.any(M, axis=0)` of a matrix with `n` columns -/
def anyAxis0 (n : Nat) : List (List Bool) → List Bool
  | [] => List.replicate n false
  | row :: rest => List.zipWith (fun a b => a || b) row (anyAxis0 n rest)

/-- `np.argwhere` of one row; columns are numbered from `j0` -/
def argwhereRow (j0 : Nat) : List Bool → List Nat
  | [] => []
  | b :: bs => if b then j0 :: argwhereRow (j0 + 1) bs else argwhereRow (j0 + 1) bs

/-- `np.argwhere` of a 2-d boolean matrix (row-major); rows are numbered from `k0` -/
def argwhere2 (k0 : Nat) : List (List Bool) → Pairs
  | [] => []
  | row :: rest => (argwhereRow 0 row).map (fun j => (k0, j)) ++ argwhere2 (k0 + 1) rest

/-- `np.take(xs, idxs)` / `xs[idxs]`; `none` = IndexError -/
def take {α : Type} (xs : List α) : List Nat → Option (List α)
  | [] => some []
  | i :: is =>
    match xs[i]?, take xs is with
    | some x, some r => some (x :: r)
    | _, _ => none

/-- what `select_events(..., ret_original_evt_idxs=True)` returns -/
structure Result (ε : Type) where
  events : List ε
  pairs : Pairs
  org : List Nat

/-- the common tail of every mask based method -/
def selectByMask {ε : Type} (evs : List ε) (M : List (List Bool)) : Option (Result ε) :=
  let n := evs.length
  let mask := anyAxis0 n M
  let org := compress mask (List.range n)
  match take evs org with
  | none => none
  | some sel => some { events := sel, pairs := argwhere2 0 (M.map (compress mask)), org := org }

/-- broadcasting `crit(events)[newaxis, :]` against the source column: row `k` = criterion of
source `k` on every event -/
def critMask {ε : Type} (crit : Nat → ε → Bool) (K : Nat) (evs : List ε) : List (List Bool) :=
  (List.range K).map (fun k => evs.map (crit k))

/-! ### batching (`SpatialBoxEventSelectionMethod`, `batch_size = 128`) -/

/-- `A[lo:lo+len(rows), :] = rows` -/
def setRows {α : Type} (A : List α) (lo : Nat) (rows : List α) : List α :=
  A.take lo ++ rows ++ A.drop (lo + rows.length)

/-- the mask matrix filled batch by batch as in the code: `n_batches = ceil(K / B)`, batch `bi`
covers `slice(bi*B, (bi+1)*B)`, the last one `slice(bi*B, None)`; for `K ≤ B` no batching. -/
def batchedMask (B K n : Nat) (rowOf : Nat → List Bool) : List (List Bool) :=
  if B < K then
    let nb := (K + B - 1) / B
    (List.range nb).foldl
      (fun acc bi =>
        let lo := bi * B
        let hi := if bi + 1 = nb then K else (bi + 1) * B
        setRows acc lo ((List.range' lo (hi - lo)).map rowOf))
      (List.replicate K (List.replicate n false))
  else (List.range K).map rowOf

/-! ### default table and pair-table based selection -/

/-- `np.repeat(xs, n)` -/
def repeatEach (xs : List Nat) (n : Nat) : List Nat := xs.flatMap (fun x => List.replicate n x)
/-- `np.tile(xs, K)` -/
def tile (xs : List Nat) (K : Nat) : List Nat := (List.replicate K xs).flatten

/-- `(np.repeat(np.arange(K), n), np.tile(np.arange(n), K))` as a list of pairs -/
def fullPairs (K n : Nat) : Pairs := (repeatEach (List.range K) n).zip (tile (List.range n) K)

/-- `csr_matrix((bits, (src_idxs, evt_idxs)), shape=(K, n)).toarray()`;
`none` = scipy's ValueError for an index outside the shape -/
def scatter (K n : Nat) (P : Pairs) (bits : List Bool) : Option (List (List Bool)) :=
  if P.all (fun p => decide (p.1 < K) && decide (p.2 < n)) then
    some ((List.range K).map fun k => (List.range n).map fun i =>
      (P.zip bits).any (fun pb => pb.1.1 == k && pb.1.2 == i && pb.2))
  else none

/-! ### methods and chaining -/

/-- `select_events(events, src_evt_idxs)` -/
abbrev Method (ε : Type) := List ε → Option Pairs → Option (Result ε)

/-- `mask_ra & mask_dec` -/
def andMask (A B : List (List Bool)) : List (List Bool) :=
  List.zipWith (fun a b => List.zipWith (fun x y => x && y) a b) A B

/-- `create_src_evt_mask(src_evt_idxs, K, n)`: `mask = zeros((K, n)); mask[src_idxs, evt_idxs] = True`
(duplicates and any order are fine); `none` = IndexError for an index outside the shape -/
def incMask (K n : Nat) (P : Pairs) : Option (List (List Bool)) := scatter K n P (P.map (fun _ => true))

/-- `mask &= create_src_evt_mask(...)` if an incoming table is given -/
def restrictMask (K n : Nat) (M : List (List Bool)) : Option Pairs → Option (List (List Bool))
  | none => some M
  | some P =>
    match incMask K n P with
    | none => none
    | some I => some (andMask M I)

/-- Dec band / RA band / psi-func (after the fix "consider only the given source and event index
pairs"): a criterion per (source, event), restricted to the incoming pair table if one is given -/
def maskMethod {ε : Type} (K : Nat) (crit : Nat → ε → Bool) : Method ε :=
  fun evs inc =>
    match restrictMask K evs.length (critMask crit K evs) inc with
    | none => none
    | some M => selectByMask evs M

/-- the mask methods as they were before that fix: the incoming pair table is ignored -/
def maskMethodUnfixed {ε : Type} (K : Nat) (crit : Nat → ε → Bool) : Method ε :=
  fun evs _ => selectByMask evs (critMask crit K evs)

/-- `PsiFuncEventSelectionMethod` (one source): `mask_sky = np.atleast_2d(psi < func(...))` -/
def psiFuncMethod {ε : Type} (p : ε → Bool) : Method ε :=
  fun evs inc =>
    match restrictMask 1 evs.length [evs.map p] inc with
    | none => none
    | some M => selectByMask evs M

/-- `if src_evt_idxs is None:` all pairs `else:` the incoming table -/
def incTable (K n : Nat) : Option Pairs → Pairs
  | none => fullPairs K n
  | some P => P

/-- `AllEventSelectionMethod` -/
def allMethod {ε : Type} (K : Nat) : Method ε :=
  fun evs inc => some { events := evs, pairs := incTable K evs.length inc, org := List.range evs.length }

/-- `SpatialBoxEventSelectionMethod`: `mask_ra` filled in source batches of `B`, `mask_dec` by
broadcasting, `mask_sky = mask_ra & mask_dec`, restricted to the incoming table if one is given -/
def boxMethod {ε : Type} (B K : Nat) (critRa critDec : Nat → ε → Bool) : Method ε :=
  fun evs inc =>
    match restrictMask K evs.length
        (andMask (batchedMask B K evs.length (fun k => evs.map (critRa k))) (critMask critDec K evs)) inc with
    | none => none
    | some M => selectByMask evs M

/-- the criterion of pair `p = (source, event index)`; an index outside the events cannot occur
for a table accepted by `scatter` -/
def critAt {ε : Type} (crit : Nat → ε → Bool) (evs : List ε) (p : Nat × Nat) : Bool :=
  match evs[p.2]? with
  | some e => crit p.1 e
  | none => false

/-- `AngErrOfPsiEventSelectionMethod`: the criterion is evaluated on the incoming pairs only -/
def pairMethod {ε : Type} (K : Nat) (crit : Nat → ε → Bool) : Method ε :=
  fun evs inc =>
    let P := incTable K evs.length inc
    let bits := P.map (critAt crit evs)
    match scatter K evs.length P bits with
    | none => none
    | some M => selectByMask evs M

/-- `IntersectionEventSelectionMethod.select_events` -/
def chain {ε : Type} (m1 m2 : Method ε) : Method ε :=
  fun evs inc =>
    match m1 evs inc with
    | none => none
    | some r1 =>
      match m2 r1.events (some r1.pairs) with
      | none => none
      | some r2 =>
        match take r1.org r2.org with
        | none => none
        | some org => some { events := r2.events, pairs := r2.pairs, org := org }

/-! ### PsiFunc index construction before the fix (kept for the counterexample theorem) -/

/-- `np.argwhere(np.atleast_2d(mask))` — event indices point into the *unselected* array -/
def psiFuncPairsUnfixed (mask : List Bool) : Pairs := argwhere2 0 [mask]

/-! ### TrialDataManager.initialize_trial -/

/-- `inv = np.empty_like(s); inv[s] = np.arange(len(s))` -/
def scatterInvGo : List Nat → Nat → List Nat → List Nat
  | [], _, acc => acc
  | s :: ss, j, acc => scatterInvGo ss (j + 1) (acc.set s j)

def scatterInv (σ : List Nat) : List Nat := scatterInvGo σ 0 (List.replicate σ.length 0)

/-- re-assign the event indices after sorting: `np.take(inv, evt_idxs)` -/
def reindex (σ : List Nat) (P : Pairs) : Option Pairs :=
  match take (scatterInv σ) (P.map Prod.snd) with
  | none => none
  | some js => some ((P.map Prod.fst).zip js)

/-- the re-indexing as it was before the fix: `np.take(sorted_idxs, evt_idxs)` -/
def reindexUnfixed (σ : List Nat) (P : Pairs) : Option Pairs :=
  match take σ (P.map Prod.snd) with
  | none => none
  | some js => some ((P.map Prod.fst).zip js)

structure Tdm (ε : Type) where
  events : List ε
  pairs : Pairs

/-- `initialize_trial(events, evt_sel_method)`; `argsort` is `np.argsort(events[index_field])`
(`none` = no index field). -/
def initTrial {ε : Type} (K : Nat) (evs : List ε) (sel : Option (Method ε))
    (argsort : Option (List ε → List Nat)) : Option (Tdm ε) :=
  let afterSel : Option (List ε × Option Pairs) :=
    match sel with
    | none => some (evs, none)
    | some m =>
      match m evs none with
      | none => none
      | some r => some (r.events, some r.pairs)
  match afterSel with
  | none => none
  | some (evs1, P1) =>
    let afterSort : Option (List ε × Option Pairs) :=
      match argsort with
      | none => some (evs1, P1)
      | some f =>
        let σ := f evs1
        match take evs1 σ with
        | none => none
        | some sorted =>
          match P1 with
          | none => some (sorted, none)
          | some P =>
            match reindex σ P with
            | none => none
            | some P' => some (sorted, some P')
    match afterSort with
    | none => none
    | some (evs2, P2) =>
      some { events := evs2, pairs := incTable K evs2.length P2 }

/-! ### `np.argsort` of the index field -/

section argsort
variable {F : Type} [LE F] [DecidableLE F]

/-- non-decreasing -/
def sortedB : List F → Bool
  | a :: b :: rest => decide (a ≤ b) && sortedB (b :: rest)
  | _ => true

/-- `np.argsort(keys, kind='stable')`: positions ordered by key, ties in original order -/
def argsortStable (keys : List F) : List Nat :=
  ((keys.zipIdx).mergeSort (fun a b => decide (a.1 ≤ b.1))).map Prod.snd

/-- `σ` is an admissible result of `np.argsort(keys)` of *any* kind (the code uses the default,
unstable one): a permutation of the positions `0..n-1` that lists the keys in non-decreasing order -/
def isArgsort (keys : List F) (σ : List Nat) : Bool :=
  decide (σ.mergeSort (fun a b => decide (a ≤ b)) = List.range keys.length) &&
    match take keys σ with
    | none => false
    | some ks => sortedB ks

end argsort

/-! ### the manager object over a history of `initialize_trial` calls -/

/-- the two members of a `TrialDataManager` that C05 is about: `_events`, `_src_evt_idxs` -/
structure TdmObj (ε : Type) where
  events : List ε
  srcEvtIdxs : Option Pairs
  /-- `_n_sources` -/
  nSources : Nat
  /-- `_n_events`: the *stated* total number of events of the data set (≥ the events held) -/
  nEvents : Nat
  /-- `_index_field_name`, object state set through the property setter: `none`, or the argsort of
  that data field -/
  sortBy : Option (List ε → List Nat) := none

/-- a freshly constructed manager (`_events = None` is represented by no events) -/
def TdmObj.fresh {ε : Type} : TdmObj ε := { events := [], srcEvtIdxs := none, nSources := 0, nEvents := 0 }

/-- `n_selected_events` -/
def TdmObj.nSelected {ε : Type} (s : TdmObj ε) : Nat := s.events.length
/-- `get_n_values()` (`none` = no table stored: TypeError) -/
def TdmObj.nValues {ε : Type} (s : TdmObj ε) : Option Nat := s.srcEvtIdxs.map List.length
/-- `n_pure_bkg_events = n_events - n_selected_events` -/
def TdmObj.nPureBkg {ε : Type} (s : TdmObj ε) : Int := (s.nEvents : Int) - (s.events.length : Int)

/-- `if n_events is None: n_events = len(self._events)` -/
def statedN (nEv : Option Nat) (n : Nat) : Nat :=
  match nEv with
  | none => n
  | some N => N

/-- `initialize_trial(shg_mgr, pmm, events, n_events, evt_sel_method)` as a method of the object,
statement by statement: `self.events = events`; `self._src_evt_idxs = None` (only if `reset`);
`self._n_sources = shg_mgr.n_sources`; `self.n_events = n_events if given else len(events)`;
selection; sort + re-index *if a table is stored*; default table *if none is stored*, built from the
stored number of sources and the number of events *held* (`n_selected_events`), not from the stated
`n_events`.  Returns the post-state (`none` = exception). -/
def initTrialObj {ε : Type} (reset : Bool) (self : TdmObj ε) (K : Nat) (evs : List ε)
    (sel : Option (Method ε)) (argsort : Option (List ε → List Nat)) (nEv : Option Nat := none) :
    Option (TdmObj ε) :=
  let nE : Nat := statedN nEv evs.length
  let s0 : TdmObj ε :=
    { events := evs, srcEvtIdxs := if reset then none else self.srcEvtIdxs, nSources := K, nEvents := nE,
      sortBy := self.sortBy }
  let s1? : Option (TdmObj ε) :=
    match sel with
    | none => some s0
    | some m =>
      match m s0.events none with
      | none => none
      | some r => some { s0 with events := r.events, srcEvtIdxs := some r.pairs }
  match s1? with
  | none => none
  | some s1 =>
    let s2? : Option (TdmObj ε) :=
      match argsort with
      | none => some s1
      | some f =>
        let σ := f s1.events
        match take s1.events σ with
        | none => none
        | some sorted =>
          match s1.srcEvtIdxs with
          | none => some { s1 with events := sorted, srcEvtIdxs := none }
          | some P =>
            match reindex σ P with
            | none => none
            | some P' => some { s1 with events := sorted, srcEvtIdxs := some P' }
    match s2? with
    | none => none
    | some s2 =>
      some { s2 with srcEvtIdxs := some (incTable s2.nSources s2.nSelected s2.srcEvtIdxs) }

/-- the `index_field_name` property setter -/
def TdmObj.setIndexField {ε : Type} (self : TdmObj ε) (f : Option (List ε → List Nat)) : TdmObj ε :=
  { self with sortBy := f }

/-- `tdm.initialize_trial(...)` as the method is called: the index field is read from the object -/
def TdmObj.initialize {ε : Type} (self : TdmObj ε) (K : Nat) (evs : List ε) (sel : Option (Method ε))
    (nEv : Option Nat := none) : Option (TdmObj ε) :=
  initTrialObj true self K evs sel self.sortBy nEv

/-- one call of a history -/
structure TdmCall (ε : Type) where
  K : Nat
  evs : List ε
  sel : Option (Method ε)
  argsort : Option (List ε → List Nat)
  nEv : Option Nat := none

/-- run a history of calls on one manager.  What a raising call leaves behind (the code has already
overwritten `_events`, possibly `_src_evt_idxs`) is not fixed here: `onRaise` is an arbitrary
function of the old object and the call, and the theorems hold for every such function. -/
def runCalls {ε : Type} (reset : Bool) (onRaise : TdmObj ε → TdmCall ε → TdmObj ε) (self : TdmObj ε) :
    List (TdmCall ε) → TdmObj ε
  | [] => self
  | c :: cs =>
    match initTrialObj reset self c.K c.evs c.sel c.argsort c.nEv with
    | none => runCalls reset onRaise (onRaise self c) cs
    | some s => runCalls reset onRaise s cs

/-! ### the selection-method object and its cached source array -/

/-- what an `EventSelectionMethod` object remembers about the sources: which manager object it
holds (`_shg_mgr`, by identity) and the source array it derived from it (`_src_arr`) -/
structure EsmObj (S : Type) where
  shgId : Nat
  srcArr : List S

/-- `change_shg_mgr(mgr)`: `mgr` is the manager object with identity `id` whose source list is
currently `srcs`.  `earlyReturn` is a fact about the current source: "returns without refreshing
`_src_arr` when handed the manager it already holds". -/
def EsmObj.changeShgMgr {S : Type} (earlyReturn : Bool) (self : EsmObj S) (id : Nat) (srcs : List S) :
    EsmObj S :=
  if earlyReturn && id == self.shgId then self else { shgId := id, srcArr := srcs }

/-- manager objects are mutable: `mgrs id` is the current source list of manager `id` -/
structure EsmWorld (S : Type) where
  mgrs : Nat → List S
  obj : EsmObj S

inductive EsmOp (S : Type) where
  /-- sources of manager `id` moved / replaced in place -/
  | mutate (id : Nat) (srcs : List S)
  /-- `obj.change_shg_mgr(manager id)` -/
  | change (id : Nat)
  /-- a `change_shg_mgr` call the object rejects (argument not a manager; PsiFunc: not exactly one
  source): the argument is checked before anything is assigned, so nothing changes -/
  | reject

def esmStep {S : Type} (earlyReturn : Bool) (w : EsmWorld S) : EsmOp S → EsmWorld S
  | .mutate id srcs => { w with mgrs := fun j => if j = id then srcs else w.mgrs j }
  | .change id => { w with obj := w.obj.changeShgMgr earlyReturn id (w.mgrs id) }
  | .reject => w

def esmRun {S : Type} (earlyReturn : Bool) (w : EsmWorld S) (ops : List (EsmOp S)) : EsmWorld S :=
  ops.foldl (esmStep earlyReturn) w

/-- `select_events` of a method object: the method built from the *cached* source array -/
def esmSelect {S ε : Type} (mk : List S → Method ε) (w : EsmWorld S) : Method ε := mk w.obj.srcArr

/-- the same call as it was before the fix "check the argument first": manager stored and source array
dropped before the check (`none` = no source array: every later select fails) -/
def EsmObj.rejectUnfixed {S : Type} (_self : EsmObj S) : Option (List S) := none

/-- `IntersectionEventSelectionMethod.change_shg_mgr`: both sub-methods (`both` = fact about the source) -/
def chainChange {S : Type} (earlyReturn both : Bool) (o : EsmObj S × EsmObj S) (id : Nat) (srcs : List S) :
    EsmObj S × EsmObj S :=
  (o.1.changeShgMgr earlyReturn id srcs, if both then o.2.changeShgMgr earlyReturn id srcs else o.2)

end EvSel
