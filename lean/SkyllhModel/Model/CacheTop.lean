/-
  Model/CacheTop.lean — the layers above the PDF ratio, for property C06 (deepening round).

  On top of Model/Cache.lean (state id, interpolation cache, pd caches) this file models

    * the **`initialize_for_new_trial` cascade** split from `TrialDataManager.initialize_trial`
      (`llhratio.py:601-621,1061-1079`, `pdfratio.py:514-533,784-809`, `signalpdf.py:797-829`): the
      signal PDF set evaluates `self._cache_eventdata`, which is rebuilt *only* by the cascade, while
      the background PDF and the event counts are read from the trial data manager at call time;
    * `change_shg_mgr` as an operation of its own (no re-initialisation fused into it);
    * `SourceWeightedPDFRatio` with `_cache_R_ik`, `_cache_R_i` (`Weights.ratioWeighted`, C03);
    * `ZeroSigH0SingleDatasetTCLLHRatio.evaluate`: log-lambda and its ns-gradient (`LLH.llr`,
      `Grad.gradNs`, C01/C02) and the **values** of `_cache_nsgrad_i`;
    * `calculate_ns_grad2(ns)`: `-sum(nsgrad_i**2) - (N - Nprime)/(N - ns)**2` with `N`, `Nprime`
      read from the trial data manager *at call time*.

  The fused operations of Model/Cache.lean (`initTrial`, `changeSource`) are the sequences
  `[tdmInit d, llhInit]` and `[changeShg s, tdmInit d, llhInit]` here (`expand`); Props/C06.lean
  proves the refinement and what goes wrong when the documented order is not kept.
-/
import SkyllhModel.Model.Cache
import SkyllhModel.Model.LLH
import SkyllhModel.Model.Grad
import SkyllhModel.Model.Weights

namespace CacheTop
open Cache

variable {D S F : Type}

/-- the leaves of the upper layers -/
structure Top (D S F : Type) where
  W : World D S F
  /-- `tdm.n_events` of a trial on data set `d` -/
  nEvents : D → Nat
  /-- `a_k`: theoretical source weight × detector signal yield of every source — a pure function of
      the source hypothesis and the parameter point (`SrcDetSigYieldWeightsService.calculate`) -/
  ak : S → Query F → List F
  /-- `ZeroSigH0SingleDatasetTCLLHRatio._one_plus_alpha` -/
  opa : F

structure TSt (D S F : Type) where
  base : St D S F
  /-- `SignalMultiDimGridPDFSet._cache_eventdata`: the (data, source) it was built from; `none`
      before the first cascade -/
  evd : Option (D × S)
  /-- `SourceWeightedPDFRatio._cache_R_ik`, `_cache_R_i` -/
  rik : Option (List (List F))
  ri : Option (List F)
  /-- the values of `ZeroSigH0SingleDatasetTCLLHRatio._cache_nsgrad_i` -/
  nsgrad : Option (List F)

inductive TOp (D S F : Type) where
  | tdmInit (d : D)       -- TrialDataManager.initialize_trial(events of d)
  | llhInit               -- LLHRatio.initialize_for_new_trial(): the cascade down to the PDF sets
  | changeShg (s : S)     -- LLHRatio.change_shg_mgr(s) (-> tdm.change_shg_mgr); no new trial
  | evaluate (q : Query F)
  | grad2 (ns : F)        -- calculate_ns_grad2(ns)

/-- what the top level returns -/
structure TOut (F : Type) where
  llh : F
  gradNs : F
  out : Out F

inductive TRes (F : Type) where
  | unit
  | vals (o : TOut F)
  | evalError             -- the evaluation raised
  | grad2 (x : F)
  | refused               -- RuntimeError: evaluate has to be called first

def tfresh (d : D) (s : S) : TSt D S F :=
  { base := fresh d s, evd := some (d, s), rik := none, ri := none, nsgrad := none }

/-- the object graph is in the state the documentation demands before an evaluation -/
def Synced (t : TSt D S F) : Prop := t.evd = some (t.base.data, t.base.src)

section
variable [BEq F] [Add F] [Sub F] [Mul F] [Div F] [Neg F] [LT F] [DecidableLT F]
  [OfNat F 0] [OfNat F 1] [OfScientific F] [Transc F]

/-- `evalC` with the signal PDFs looking at the event data of `(dσ, sσ)` (what `_cache_eventdata` was
built from) while the background PDF reads the trial data manager (`st.data`, `st.src`) -/
def evalCσ (W : World D S F) (hit : F → F → Bool) (cfg : Cfg) (st : St D S F) (dσ : D) (sσ : S)
    (q : Query F) : St D S F × Out F :=
  let W' : World D S F := { W with bkg := fun _ _ => W.bkg st.data st.src }
  let r := evalC W' hit cfg { st with data := dσ, src := sσ } q
  ({ r.1 with data := st.data, src := st.src }, r.2)

/-- the numbers `evaluate` derives from the per-(source, event) ratios -/
structure Derived (F : Type) where
  ri : List F
  llh : F
  gradNs : F
  nsgrad : List F

/-- one row of the dense `K × nSel` table behind the flat values array: the value of the pair
(source, event `i`) where the event selection paired them, `0` elsewhere (`R_i = np.zeros(…)`,
`R_i[evt_idxs[src_mask]] += …`) -/
def denseRow (nSel : Nat) (idx : List Nat) (vals : List F) : List F :=
  (List.range nSel).map (fun i => (((idx.zip vals).find? (fun p => p.1 == i)).map (·.2)).getD 0)

/-- `SourceWeightedPDFRatio.get_ratio` → `Xi = (Ri - 1)/N` → `calculate_log_lambda_and_grads` -/
def derive (T : Top D S F) (d : D) (s : S) (q : Query F) (rik : List (List F)) : Derived F :=
  let nSel := (T.W.bkg d s).length
  let dense := List.zipWith (fun k vals => denseRow nSel (T.W.sel d s k) vals) (List.range rik.length) rik
  let ri := Weights.ratioWeighted (T.ak s q) dense nSel
  let N := T.nEvents d
  let xs := ri.map (LLH.xOfRatio N)
  ⟨ri, LLH.llr T.opa N q.ns xs, Grad.gradNs T.opa N q.ns xs, xs.map (Grad.nsGradI T.opa q.ns)⟩

/-- `calculate_ns_grad2`: from the cached `nsgrad_i`, with `N` and `Nprime` of the *current* trial -/
def grad2Of (T : Top D S F) (d : D) (s : S) (nsgrad : List F) (ns : F) : F :=
  -Weights.sumF (nsgrad.map (fun g => g * g)) - Grad.bkgGrad2 (T.nEvents d) (T.W.bkg d s).length ns

def tstep (T : Top D S F) (v : Variant) (hit : F → F → Bool) (cfg : Cfg) (t : TSt D S F) :
    TOp D S F → TSt D S F × TRes F
  | .tdmInit d =>
    ({ t with base := { t.base with data := d, sid := t.base.sid + (bumpInit v cfg : Nat) } }, .unit)
  | .llhInit =>
    ({ t with evd := some (t.base.data, t.base.src),
              base := { t.base with nsg := if v.resetNsgrad then none else t.base.nsg },
              nsgrad := if v.resetNsgrad then none else t.nsgrad }, .unit)
  | .changeShg s =>
    ({ t with base := { t.base with src := s, sid := t.base.sid + (bumpSrc v cfg : Nat) } }, .unit)
  | .evaluate q =>
    match t.evd with
    | none => (t, .evalError)       -- no event data yet: the PDF set cannot be evaluated
    | some (dσ, sσ) =>
      if queryOk T.W cfg.parabola q then
        let r := evalCσ T.W hit cfg t.base dσ sσ q
        let dv := derive T t.base.data t.base.src q r.2.ratio
        ({ t with base := r.1, rik := some r.2.ratio, ri := some dv.ri, nsgrad := some dv.nsgrad },
         .vals ⟨dv.llh, dv.gradNs, r.2⟩)
      else
        ({ t with base := { t.base with nsg := if v.clearNsgOnEval then none else t.base.nsg },
                  nsgrad := if v.clearNsgOnEval then none else t.nsgrad }, .evalError)
  | .grad2 ns =>
    (t, match t.nsgrad with
        | some g => .grad2 (grad2Of T t.base.data t.base.src g ns)
        | none => .refused)

def trun (T : Top D S F) (v : Variant) (hit : F → F → Bool) (cfg : Cfg) :
    TSt D S F → List (TOp D S F) → TSt D S F × List (TRes F)
  | t, [] => (t, [])
  | t, op :: ops =>
    let r := tstep T v hit cfg t op
    let rest := trun T v hit cfg r.1 ops
    (rest.1, r.2 :: rest.2)

/-! ### specification -/

/-- the stateless top-level evaluator -/
def topPure (T : Top D S F) (parabola : Bool) (d : D) (s : S) (q : Query F) : Option (TOut F × Derived F) :=
  if queryOk T.W parabola q then
    let r := evalPure T.W parabola d s q
    let dv := derive T d s q r.1
    some (⟨dv.llh, dv.gradNs, ⟨r.1, r.2, false, 0, false⟩⟩, dv)
  else none

/-- the fused operations of Model/Cache.lean as sequences of the real calls -/
def expand (cur : D) : Op D S F → List (TOp D S F)
  | .initTrial d => [.tdmInit d, .llhInit]
  | .changeSource s => [.changeShg s, .tdmInit cur, .llhInit]
  | .evaluate q => [.evaluate q]
  | .grad2 => []

/-- a history of fused operations, expanded with the data set that is current at each point -/
def expandAll : D → List (Op D S F) → List (TOp D S F)
  | _, [] => []
  | cur, .initTrial d :: ops => expand cur (.initTrial d) ++ expandAll d ops
  | cur, op :: ops => expand cur op ++ expandAll cur ops

/-! ### the composite likelihood of several datasets (`MultiDatasetTCLLHRatio`)

Dataset 0 is the modelled object graph; the further datasets are leaves (their PDF ratios keep no state
between calls; the only thing they remember is their own `_cache_nsgrad_i`).  State that matters:
what `DatasetSignalWeightFactorsService.get_weights()` hands out — recalculated by *every* evaluate,
before anything can fail — and the per-dataset cached ns-gradients. -/

structure Comp (D S F : Type) where
  T : Top D S F
  /-- `f_j` of all datasets, dataset 0 first: a pure function of source hypothesis and parameter point -/
  fj : S → Query F → List F
  /-- the further datasets at a parameter point: `R_i` of their selected events -/
  others : D → S → Query F → List (List F)
  /-- their event counts `(N_j, N'_j)`, read from their trial data managers at call time -/
  counts : D → List (Nat × Nat)

structure CSt (D S F : Type) where
  t : TSt D S F
  /-- the weights the service hands out (`none`: never calculated) -/
  fsvc : Option (List F)
  /-- `_cache_nsgrad_i` of the further datasets -/
  nsg2 : Option (List (List F))

inductive COp (D S F : Type) where
  | low (op : TOp D S F)       -- tdmInit / llhInit / changeShg (on all datasets), single-dataset grad2
  | cevaluate (q : Query F)    -- MultiDatasetTCLLHRatio.evaluate
  | cgrad2 (ns : F)            -- MultiDatasetTCLLHRatio.calculate_ns_grad2

inductive CRes (F : Type) where
  | low (r : TRes F)
  | vals (llh gradNs : F)
  | evalError
  | grad2 (x : F)
  | refused

def cfresh (d : D) (s : S) : CSt D S F := ⟨tfresh d s, none, none⟩

/-- the query dataset 0 is evaluated with: `llhratio_fitparam_values[ns_pidx] = ns * f[0]` -/
def q0 (q : Query F) (f0 : F) : Query F := { q with ns := q.ns * f0 }

/-- one further dataset at effective `ns_j`: log-lambda, ns-gradient, cached per-event ns-gradients -/
def otherEval (opa : F) (nsj : F) (cnt : Nat × Nat) (ri : List F) : F × F × List F :=
  let xs := ri.map (LLH.xOfRatio cnt.1)
  (LLH.llr opa cnt.1 nsj xs, Grad.gradNs opa cnt.1 nsj xs, xs.map (Grad.nsGradI opa nsj))

/-- the further datasets of a composite evaluation -/
def othersEval (C : Comp D S F) (d : D) (s : S) (q : Query F) (frest : List F) : List (F × F × List F) :=
  List.zipWith (fun (fc : F × (Nat × Nat)) ri => otherEval C.T.opa (q.ns * fc.1) fc.2 ri)
    (List.zip frest (C.counts d)) (C.others d s q)

/-- `log_lambda = 0; log_lambda += log_lambda_j` and `grads[ns] += grads_j[ns] * f[j]` -/
def combine (llh0 g0 f0 : F) (frest : List F) (oth : List (F × F × List F)) : F × F :=
  (Weights.sumF (llh0 :: oth.map (·.1)),
   Weights.sumF ((g0 * f0) :: List.zipWith (fun (o : F × F × List F) f => o.2.1 * f) oth frest))

/-- `np.sum(nsgrad2j * f**2)` with `nsgrad2j[j] = llhratio_j.calculate_ns_grad2(ns * f[j])` -/
def cgrad2Of (C : Comp D S F) (d : D) (s : S) (f0 : F) (frest : List F) (g0 : List F)
    (gs : List (List F)) (ns : F) : F :=
  let first := grad2Of C.T d s g0 (ns * f0) * (f0 * f0)
  let rest := List.zipWith (fun (fc : F × (Nat × Nat)) g =>
      (-Weights.sumF (g.map (fun x => x * x)) - Grad.bkgGrad2 fc.2.1 fc.2.2 (ns * fc.1)) * (fc.1 * fc.1))
    (List.zip frest (C.counts d)) gs
  Weights.sumF (first :: rest)

def cstep (C : Comp D S F) (v : Variant) (hit : F → F → Bool) (cfg : Cfg) (c : CSt D S F) :
    COp D S F → CSt D S F × CRes F
  | .low op =>
    let r := tstep C.T v hit cfg c.t op
    ({ c with t := r.1,
              nsg2 := match op with
                | .llhInit => if v.resetNsgrad then none else c.nsg2
                | _ => c.nsg2 }, .low r.2)
  | .cevaluate q =>
    match C.fj c.t.base.src q with
    | [] => (c, .evalError)
    | f0 :: frest =>
      let r := tstep C.T v hit cfg c.t (.evaluate (q0 q f0))
      match r.2 with
      | .vals o =>
        let oth := othersEval C c.t.base.data c.t.base.src q frest
        let tot := combine o.llh o.gradNs f0 frest oth
        (⟨r.1, some (f0 :: frest), some (oth.map (·.2.2))⟩, .vals tot.1 tot.2)
      | _ => (⟨r.1, some (f0 :: frest), c.nsg2⟩, .evalError)   -- the services were recalculated before the failure
  | .cgrad2 ns =>
    (c, match c.fsvc, c.t.nsgrad, c.nsg2 with
        | some (f0 :: frest), some g0, some gs =>
          .grad2 (cgrad2Of C c.t.base.data c.t.base.src f0 frest g0 gs ns)
        | _, _, _ => .refused)

def crun (C : Comp D S F) (v : Variant) (hit : F → F → Bool) (cfg : Cfg) :
    CSt D S F → List (COp D S F) → CSt D S F × List (CRes F)
  | c, [] => (c, [])
  | c, op :: ops =>
    let r := cstep C v hit cfg c op
    let rest := crun C v hit cfg r.1 ops
    (rest.1, r.2 :: rest.2)

/-- the stateless composite evaluator: value, ns-gradient, and what the datasets would cache -/
def compPure (C : Comp D S F) (parabola : Bool) (d : D) (s : S) (q : Query F) :
    Option ((F × F) × (F × List F) × List F × List (List F)) :=
  match C.fj s q with
  | [] => none
  | f0 :: frest =>
    match topPure C.T parabola d s (q0 q f0) with
    | some p =>
      let oth := othersEval C d s q frest
      some (combine p.1.llh p.1.gradNs f0 frest oth, (f0, frest), p.2.nsgrad, oth.map (·.2.2))
    | none => none

/-- fused composite operations -/
inductive FOp (D S F : Type) where
  | initTrial (d : D)
  | changeSource (s : S)
  | cevaluate (q : Query F)

/-- … as sequences of the real calls -/
def cexpandAll : D → List (FOp D S F) → List (COp D S F)
  | _, [] => []
  | _, .initTrial d :: ops => .low (.tdmInit d) :: .low .llhInit :: cexpandAll d ops
  | cur, .changeSource s :: ops =>
    .low (.changeShg s) :: .low (.tdmInit cur) :: .low .llhInit :: cexpandAll cur ops
  | cur, .cevaluate q :: ops => .cevaluate q :: cexpandAll cur ops

/-- the history dataset 0 sees: every composite evaluate becomes an evaluate at `ns·f₀(s, q)` with the
source `s` that is current at that moment -/
def lower (C : Comp D S F) : S → List (FOp D S F) → List (Op D S F)
  | _, [] => []
  | s, .initTrial d :: ops => .initTrial d :: lower C s ops
  | _, .changeSource s :: ops => .changeSource s :: lower C s ops
  | s, .cevaluate q :: ops =>
    (match C.fj s q with
     | [] => []
     | f0 :: _ => [.evaluate (q0 q f0)]) ++ lower C s ops

end

end CacheTop
