/-
  Round 7 (C13) — `skyllh/core/utils/flux_model.py`:
  `create_scipy_stats_rv_continuous_from_TimeFluxProfile(profile)`.

  The function captures, at creation time,
    * `norm = 0; tot = profile.get_total_integral(); if tot != 0: norm = 1 / tot`
    * the support `a = profile.t_start`, `b = profile.t_stop`
  and keeps a *reference* to the (mutable) profile.  `_pdf(t) = profile(t) * norm`,
  `_cdf(t) = profile.cdf(t)`; the returned object is `.freeze(loc=0, scale=1)`, so the public
  `pdf` / `cdf` are scipy's wrappers (`rv_continuous.pdf/cdf`): `y = (x - loc) / scale`,
  closed support mask for the pdf, open support mask and `y >= b -> 1` for the cdf,
  `scale > 0` else badvalue (modelled as `none`).

  The live profile enters as the functions `call` / `cdf` (its *current* `__call__` / `cdf`), the
  frozen part is the structure `Rv`.  Core Lean only, scalar-polymorphic.
-/
import SkyllhModel.Model.Flux

namespace Flux

/-- what the random variable froze when it was created -/
structure Rv (F : Type) where
  a : F
  b : F
  norm : F
deriving Repr

section rv
variable {F : Type}
variable [Add F] [Sub F] [Mul F] [Div F] [Neg F] [LE F] [DecidableLE F] [LT F] [DecidableLT F]
  [OfNat F 0] [OfNat F 1] [OfNat F 2] [OfScientific F] [Transc F] [BEq F]

/-- `norm = <dflt>; if tot_integral != 0: norm = 1 / tot_integral` (`dflt` is the literal of the source) -/
def rvNorm (dflt tot : F) : F := if tot == 0 then dflt else 1 / tot

/-- `TimeFluxProfile.get_total_integral` of the time cells (`none`: not a time profile → TypeError) -/
def Cell.totalT (erf : F → F) : Cell F → Option F
  | .unityT w => some (unityIntegral w.tStart w.tStop)
  | .box w => some (boxIntegral w w.tStart w.tStop)
  | .gauss g => some (gaussTotal erf g)
  | _ => none

/-- `t_start`, `t_stop` of a time cell -/
def Cell.window : Cell F → Option (Win F)
  | .unityT w => some w
  | .box w => some w
  | .gauss g => some ⟨g.tStart, g.tStop⟩
  | _ => none

/-- `profile.cdf(t)`; `none` where the class has no `cdf` method (unity: scipy's generic `_cdf`, not modelled) -/
def Cell.cdfT (erf : F → F) : Cell F → F → Option F
  | .box w, t => some (boxCdf w t)
  | .gauss g, t => some (gaussCdf erf g t)
  | _, _ => none

/-- creation of the random variable from the current state of the profile -/
def rvNew (dflt : F) (erf : F → F) (c : Cell F) : Option (Rv F) :=
  match c.totalT erf, c.window with
  | some tot, some w => some ⟨w.tStart, w.tStop, rvNorm dflt tot⟩
  | _, _ => none

/-- `rv.pdf(x)`: scipy's wrapper around `_pdf(y) = call y * norm` -/
def rvPdf (loc scale : F) (r : Rv F) (call : F → F) (x : F) : Option F :=
  let y := (x - loc) / scale
  if 0 < scale then
    if r.a ≤ y ∧ y ≤ r.b then some ((call y * r.norm) / scale) else some 0
  else none

/-- `rv.cdf(x)`: scipy's wrapper around `_cdf(y) = profile.cdf(y)` -/
def rvCdf (loc scale : F) (r : Rv F) (cdf : F → F) (x : F) : Option F :=
  let y := (x - loc) / scale
  if 0 < scale then
    if r.b ≤ y then some 1
    else if r.a < y ∧ y < r.b then some (cdf y)
    else some 0
  else none

/-- specification forms (loc = 0, scale = 1): density and distribution function of the frozen variable
evaluated with the live profile -/
def rvPdfSpec (r : Rv F) (call : F → F) (x : F) : F :=
  if r.a ≤ x ∧ x ≤ r.b then call x * r.norm else 0

def rvCdfSpec (r : Rv F) (cdf : F → F) (x : F) : F :=
  if r.b ≤ x then 1 else if r.a < x then cdf x else 0

/-- the public calls on a live cell (`none`: scale ≤ 0, not a time profile, or no `cdf` method);
the wrappers evaluate the profile only at `y = (x - loc) / scale` -/
def rvPdfCell [Pow F F] (loc scale : F) (r : Rv F) (c : Cell F) (x : F) : Option F :=
  match c.evalT ((x - loc) / scale) with
  | none => none
  | some v => rvPdf loc scale r (fun _ => v) x

def rvCdfCell (loc scale : F) (erf : F → F) (r : Rv F) (c : Cell F) (x : F) : Option F :=
  match c.cdfT erf ((x - loc) / scale) with
  | none => none
  | some v => rvCdf loc scale r (fun _ => v) x

end rv
end Flux
