-- Root of the `SkyllhModel` library: every property file is imported here so that a plain
-- `lake build` re-checks all theorems.
import SkyllhModel.Scalar
import SkyllhModel.Proto
