-- Root of the `SkyllhModel` library: every property file is imported here so that a plain
-- `lake build` re-checks all theorems.
import SkyllhModel.Scalar
import SkyllhModel.Proto
import SkyllhModel.Props.C12
import SkyllhModel.Props.C08
import SkyllhModel.Props.C15
import SkyllhModel.Props.C06
import SkyllhModel.Props.C13
import SkyllhModel.Props.C09
import SkyllhModel.Props.C04
import SkyllhModel.Props.C10
import SkyllhModel.Props.C19
import SkyllhModel.Props.C05
import SkyllhModel.Props.C01
import SkyllhModel.Props.C03
import SkyllhModel.Props.C02
import SkyllhModel.Props.C17
import SkyllhModel.Props.C20
import SkyllhModel.Props.C11
import SkyllhModel.Props.C16
import SkyllhModel.Props.C07
import SkyllhModel.Props.C18
import SkyllhModel.Props.C14
