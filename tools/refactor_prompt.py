#!/usr/bin/env python3
"""Brief for an independent refactoring-writer sub-agent: tools/refactor_prompt.py C14 [n]"""
import json, sys, os
V = os.path.dirname(os.path.dirname(os.path.abspath(__file__)))
pid = sys.argv[1]
n = int(sys.argv[2]) if len(sys.argv) > 2 else 3
p = [json.loads(l) for l in open(os.path.join(V, 'properties.jsonl'))]
p = [x for x in p if x['id'] == pid][0]
import glob
round2 = '--round2' in sys.argv
suffix = 'd' if '--round4' in sys.argv else ('b' if round2 else '')
avoid = ''
if round2:
    prev = []
    for m in sorted(glob.glob(os.path.join(V, 'refactorings', pid + '_r*', 'meta.json'))):
        d = json.load(open(m))
        prev.append('  - %s [%s] (%s)' % (d.get('title', ''), d.get('kind', ''), ', '.join(d.get('files', []))))
    avoid = ("\nALREADY DONE by an earlier round (do NOT repeat these or close variants; pick other code sites and other KINDS):\n" + '\n'.join(prev) +
             "\nKinds to prefer in this round (they are the ones most likely to trip over-eager tooling, while being perfectly legitimate): "
             "adding a defensive copy where a fresh array was returned anyway, or removing a redundant copy of an array the function itself "
             "just created; normalising arguments at entry (np.asarray / np.atleast_1d / float()) where all accepted inputs already behave "
             "the same; adding a cache or memo that is invalidated exactly when its inputs change (so no stale answer is ever returned); "
             "replacing an in-place operation on an array the function owns (created inside it) by an out-of-place one or the reverse; "
             "changing the order in which independent sub-results are computed, or the iteration order over a dict/set whose order cannot "
             "matter; changing a private container type (list <-> tuple <-> ndarray, dict <-> two lists); adding an early return for a trivial "
             "case that yields the identical result (same type, dtype and shape); adding logging/debug output; re-associating float "
             "arithmetic (last-bits differences only); replacing a Python loop by a comprehension/generator; changing exception MESSAGE text; "
             "consuming random numbers in exactly the same order and amount (never change the RNG stream).\n")
print(f"""You are a careful maintainer of the Python package icecube/skyllh (a framework for unbinned likelihood analyses of neutrino
data). Somebody else has built verification tooling for the package, which you know nothing about and must not look for (do not read
anything under /verif). To evaluate whether that tooling raises FALSE alarms, you produce behaviour-preserving refactorings.

Your own scratch git worktree of the package is /tmp/rw_{pid} (already created at the current main; work only there; never touch /repo).
Python with all dependencies: /venv/bin/python. The package is installed in editable mode from /repo, so run your programs with
`cd /tmp/rw_{pid} && PYTHONPATH=/tmp/rw_{pid} /venv/bin/python prog.py` and check `skyllh.__file__` points into /tmp/rw_{pid}.
The existing test-suite: `cd /tmp/rw_{pid} && PYTHONPATH=/tmp/rw_{pid} /venv/bin/python -m pytest -q -p no:cacheprovider --timeout=900`
(must report 174 passed before and after each of your changes).

THE PROPERTY the package satisfies in this area (and must still satisfy after your changes):
  id: {p['id']}
  title: {p['title']}
  statement: {p['statement']}
  quantified over: {p['quantifier']['text']}
  code anchors: files {', '.join(p['anchors']['files'])}; mechanisms: {'; '.join(m['name'] + ' @ ' + m['where'] for m in p['anchors']['mechanism'])}

TASK: produce {n} DIFFERENT refactorings (each a patch of 5-60 changed lines to files under skyllh/, in the anchored code above) of the
kind a maintainer would really commit, each of which PRESERVES the observable behaviour of the public API and therefore the property:
e.g. restructuring a loop into vectorised numpy (or the reverse), reordering independent statements, re-associating a floating-point
sum or product (results may differ in the last bits only), renaming local variables or PRIVATE attributes/helpers (names starting with an
underscore) consistently, replacing an index computation by an equivalent one, splitting a method into helpers, changing an internal
cache representation (e.g. dict -> list, tuple -> small class) without changing when it is invalidated, replacing np.append by
np.concatenate, hoisting invariant computations, using a different but equivalent numpy primitive (searchsorted vs digitize, argsort
kinds that give the same result on distinct keys, where vs boolean indexing), changing the TEXT of exception messages (not their
types) or of log output. Do NOT change public names, signatures, return types, exception types, or the numerical result beyond
rounding in the last few bits; do NOT fix or introduce bugs; do not touch the tests. Make the {n} refactorings different in kind and
site; at least one should touch private state (rename/reshape a private attribute or cache) if the area has any, and at least one
should change floating-point evaluation order if the area computes floats.
{avoid}

For each refactoring k = 1..{n} create /tmp/ref_{pid}/{pid}_r<k>{suffix}/ with
  patch.diff  (`git -C /tmp/rw_{pid} diff` for this change alone against HEAD),
  equiv.py    (a small program that exercises the refactored code on a spread of inputs incl. edge cases and prints a canonical
               dump of the results — floats printed with 10 significant digits — so that its output is IDENTICAL on the clean and the
               refactored tree; exit code 0),
  meta.json   {{"property": "{pid}", "title": "<one line>", "kind": "<what kind of refactoring>", "files": ["skyllh/..."],
                "why_equivalent": "<argument that public behaviour is preserved>", "ran": ["<commands and outcomes>"]}}
After saving each patch restore the worktree (`git -C /tmp/rw_{pid} checkout -- .`); each patch must apply on its own with `git apply`.
Verify for each: equiv.py output identical clean vs patched (diff the two outputs), test-suite 174 passed when patched. Never use `git stash` (the stash is shared between all worktrees of the repository and other people work in theirs). Leave the
worktree clean. Final message: one line per refactoring (what, where).""")
