#!/bin/bash
# tools/post_r7.sh Cxx — after integrating a round-7 builder: seeds on /repo, round-7 seeded changes, and all kept refactorings of Cxx
cd "$(dirname "$0")/.."
p=$1; out=/tmp/post_r7_$p.log; : > $out
for s in 0 5 7 11; do ./check $p --seed $s 2>&1 | grep -E "^$p (OK|VIOLATED)|^VIOLATION|MACHINERY" | cut -c1-250 >> $out; done
for d in seeded/${p}_m*g; do
  tools/try_mutant.py $d --keep --skip-confirm --seeds 3 > /tmp/post_$(basename $d).log 2>&1
  echo "$(basename $d) $(grep -o '"caught": [a-z]*' /tmp/post_$(basename $d).log | head -1)" >> $out
done
for d in refactorings/${p}_r*; do
  tools/try_refactor.py $d --keep > /tmp/post_$(basename $d).log 2>&1
  echo "$(basename $d) $(grep -o '"silent": [a-z]*' /tmp/post_$(basename $d).log | head -1) $(grep -o '"confirmed": [a-z]*' /tmp/post_$(basename $d).log | head -1)" >> $out
done
./check $p --seed 0 > /dev/null 2>&1
echo DONE >> $out
