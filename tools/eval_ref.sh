#!/bin/bash
# tools/eval_ref.sh <suffix> Cxx... — confirm and evaluate delivered /tmp/ref_Cxx/Cxx_r<k><suffix> (serial per property, properties in parallel)
cd "$(dirname "$0")/.."
suf=$1; shift
one() { p=$1; suf=$2
  for d in /tmp/ref_$p/${p}_r[0-9]$suf; do [ -d "$d" ] || continue; m=$(basename $d); [ -s /tmp/tryr_$m.out ] && continue
    python3 tools/try_refactor.py $d --keep --seeds 0,3 > /tmp/tryr_$m.out.tmp 2>&1; mv /tmp/tryr_$m.out.tmp /tmp/tryr_$m.out
    echo "$m $(grep -o '"silent": [a-z]*' /tmp/tryr_$m.out | head -1) $(grep -o '"confirmed": [a-z]*' /tmp/tryr_$m.out | head -1)"
  done; }
export -f one
printf '%s\n' "$@" | xargs -P 5 -I{} bash -c "one {} $suf"
