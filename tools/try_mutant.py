#!/usr/bin/env python3
"""Confirm a seeded change and run the check against it, in a scratch worktree of /repo.

  tools/try_mutant.py <mutant dir with patch.diff, demo.py, meta.json> [--keep] [--tier quick] [--seeds 0,1]
Steps: clean worktree of /repo HEAD -> demo must exit 0; apply patch -> demo must exit 1, the 174 tests must pass;
then `VERIF_REPO=<worktree> ./check <prop>` must exit 1 with a VIOLATION line.  With --keep the mutant is copied to
/verif/seeded/<id>/ with the outcome recorded in meta.json.  The worktree is always removed."""
import json, os, shutil, subprocess, sys, time

V = os.path.dirname(os.path.dirname(os.path.abspath(__file__)))
d = os.path.abspath(sys.argv[1])
keep = '--keep' in sys.argv
tier = sys.argv[sys.argv.index('--tier') + 1] if '--tier' in sys.argv else 'quick'
seeds = sys.argv[sys.argv.index('--seeds') + 1].split(',') if '--seeds' in sys.argv else ['0']
skip_confirm = '--skip-confirm' in sys.argv
meta = json.load(open(os.path.join(d, 'meta.json')))
prop = meta['property']
mid = os.path.basename(d.rstrip('/'))
wt = '/tmp/mt_%s_%d' % (mid, os.getpid())


def sh(cmd, **kw):
    return subprocess.run(cmd, shell=True, capture_output=True, text=True, **kw)


res = {'id': mid, 'property': prop}
sh('git -C /repo worktree add -q --detach %s HEAD' % wt)
try:
    env = dict(os.environ, PYTHONPATH=wt)
    demo = os.path.join(d, 'demo.py')
    if not skip_confirm:
        r = sh('/venv/bin/python %s' % demo, cwd=wt, env=env, timeout=900)
        res['demo_clean_rc'] = r.returncode
    r = sh('git -C %s apply %s' % (wt, os.path.join(d, 'patch.diff')))
    if r.returncode != 0:
        r = sh('git -C %s apply --3way %s' % (wt, os.path.join(d, 'patch.diff')))
    res['apply_rc'] = r.returncode
    if r.returncode != 0:
        res['apply_err'] = r.stderr[-500:]
    else:
        if not skip_confirm:
            r = sh('/venv/bin/python %s' % demo, cwd=wt, env=env, timeout=900)
            res['demo_patched_rc'] = r.returncode
            res['demo_patched_out'] = (r.stdout + r.stderr)[-400:]
            r = sh('/venv/bin/python -m pytest -q -p no:cacheprovider --timeout=900 2>&1 | tail -1', cwd=wt, env=env, timeout=1800)
            res['tests'] = r.stdout.strip()
        res['check'] = []
        for s in seeds:
            t = time.time()
            r = sh('./check %s --tier %s --seed %s' % (prop, tier, s), cwd=V, env=dict(os.environ, VERIF_REPO=wt), timeout=7200)
            lines = [l for l in r.stdout.split('\n') if l.startswith(('VIOLATION', 'KNOWN-FINDING', 'MACHINERY', '  what', prop + ' '))]
            res['check'].append({'seed': s, 'rc': r.returncode, 'wall_s': round(time.time() - t, 1), 'lines': lines[:8]})
    caught = bool(res.get('check')) and all(c['rc'] == 1 for c in res['check'])
    res['caught'] = caught
    res['confirmed'] = skip_confirm or (res.get('demo_clean_rc') == 0 and res.get('demo_patched_rc') == 1 and '174 passed' in res.get('tests', ''))
finally:
    sh('git -C /repo worktree remove --force %s' % wt)
    # the check may have rewritten Generated/<prop>.lean from the mutated source: regenerate from /repo
    sh('./check %s --seed 0 >/dev/null 2>&1' % prop, cwd=V) if res.get('check') else None
print(json.dumps(res, indent=1))
if keep and res.get('confirmed'):
    dst = os.path.join(V, 'seeded', mid)
    os.makedirs(dst, exist_ok=True)
    for f in ('patch.diff', 'demo.py'):
        if os.path.abspath(d) != os.path.abspath(dst):
            shutil.copy(os.path.join(d, f), dst)
    if not skip_confirm or 'confirmed_by_lead' not in meta:
        meta['confirmed_by_lead'] = {k: res.get(k) for k in ('demo_clean_rc', 'demo_patched_rc', 'tests')}
    meta['check_result'] = {'caught': res['caught'], 'runs': res['check'], 'tier': tier}
    json.dump(meta, open(os.path.join(dst, 'meta.json'), 'w'), indent=1)
    print('kept in', dst)
