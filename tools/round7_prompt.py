#!/usr/bin/env python3
"""Brief for a round-7 builder (follow-up of fresh-eyes misses + deepening): tools/round7_prompt.py C07 [minutes]"""
import json, sys, os, glob
V = os.path.dirname(os.path.dirname(os.path.abspath(__file__)))
pid = sys.argv[1]
minutes = int(sys.argv[2]) if len(sys.argv) > 2 else 60
props = {json.loads(l)['id']: l.strip() for l in open(os.path.join(V, 'properties.jsonl'))}
misses = []
for m in sorted(glob.glob(os.path.join(V, 'seeded', pid + '_m*g', 'meta.json'))):
    d = json.load(open(m))
    if not d.get('check_result', {}).get('caught'):
        misses.append((os.path.dirname(m), d))
mtxt = ''
if misses:
    mtxt = ("ROUND-7 MISSES (independently seeded changes, confirmed by the lead: demo exits 0 clean / 1 patched, 174 tests pass, and "
            "`./check %s` stayed silent with seeds 0 and 3). For each: say in design.d why the CLASS of behaviour was out of reach, then "
            "bring that class into reach (a generated dimension of the harness + the model state / theorem that makes it expressible) — "
            "never special-case the patch. Confirm with `python3 tools/try_mutant.py seeded/<id> --keep --skip-confirm --seeds 0,3`.\n" % pid)
    for d, meta in misses:
        mtxt += "  - %s: %s\n      breaks: %s\n      needs: %s\n      files: %s\n" % (
            os.path.relpath(d, V), meta.get('title', ''), meta.get('breaks', ''), meta.get('needs', ''), ', '.join(meta.get('files', [])))
else:
    mtxt = "ROUND-7 MISSES: none for this property (all fresh-eyes changes of this round were caught at first try) — spend the whole budget on deepening.\n"
print(f"""You continue the work on property {pid} of a Lean-4 machine-checked-proof verification framework for the Python package
icecube/skyllh. The framework lives in /verif (lead-maintained, mature: ~1100 kernel-checked theorems, 20 properties claimed);
skyllh is at /repo (pinned commit + ~130 'fix:' commits). You own the files of {pid}: lean/SkyllhModel/Model/* and Proofs/* used by
{pid} (see MODEL_MODULES in harness/props/{pid.lower()}.py), lean/SkyllhModel/Props/{pid}.lean, lean/Driver/{pid}.lean,
lean/SkyllhModel/Generated/{pid}.lean (written by generated()), harness/props/{pid.lower()}.py and its fixture module(s),
findings.d/{pid}.json, design.d/{pid}.md. Everything else in /verif is read-only for you. Other builders work concurrently on other
properties: never run a bare `lake build`, `lake clean`, or any git command in /verif; build only your module
(`cd /verif/lean && lake build SkyllhModel.Props.{pid}`).
SHARED FILES: model / proof / fixture files that other properties also import (Model/LLH, Model/Weights, Model/Livetime, Model/Store,
Model/StoreIO, Proofs of those, harness/llh_fixtures.py, cache_fixtures.py, store_fixtures.py, siggen_fixtures.py and any file another
property's harness or Lean file imports — grep before editing) are APPEND-ONLY in this round: add new definitions under new names,
never change or delete existing ones, keep every existing signature and default. Prefer a NEW file of your own
(lean/SkyllhModel/Model/<Name>R7.lean added to MODEL_MODULES, harness/{pid.lower()}_r7_fixtures.py) for new material.

READ FIRST: /verif/BUILDER_GUIDE.md (binding conventions, hard rules, "Lessons added late"), /verif/design.d/{pid}.md (history of this
check: what is modelled, what is listed as remaining / oracle-only / partial), then your own files, then the anchored skyllh source.

PROPERTY TEXT (fixed): {props[pid]}

SCRATCH WORKTREE of skyllh for experiments, hand-made mutants and possible 'fix:' commits: /tmp/wt7_{pid} (branch agent-{pid}-r7,
already created from /repo HEAD). Never touch /repo. Never use `git stash` (shared between worktrees). Run the check against it with
`cd /verif && VERIF_REPO=/tmp/wt7_{pid} ./check {pid} --seed 0`. Python: /venv/bin/python. Tests: cd /tmp/wt7_{pid} &&
PYTHONPATH=/tmp/wt7_{pid} /venv/bin/python -m pytest -q -p no:cacheprovider --timeout=900 (174 passed).

{mtxt}
DEEPENING (the main goal of this round: more of the code inside the model, more theorems, a tighter tie between model and code):
  1. Take the "remaining" / "oracle-only" / "not modelled" / "partial" items of design.d/{pid}.md and the anchored functions of the
     property that still have no Lean definition. Bring the most behaviour-relevant ones inside the executable Lean model (mirroring
     the code as it is: index arithmetic, caches, error branches as Option/Except), add a driver op per new definition, and compare
     it with the real code on generated inputs in run(ctx) (count every branch of every new model function; no zero-hit branches in
     the quick tier).
  2. Prove new `{pid.lower()}_*` theorems about them at the strength of the property text (induction / invariants / refinement —
     no `decide` over samples as the general claim; non-vacuity `example`s; hypotheses either part of the quantifier, proved to be
     established by the code, or named assumptions in the evidence). Upgrade `_partial` theorems to the full statement where possible.
  3. Tighten the tie: constants / signatures / defaults / branch structure the model depends on should be regenerated from the
     current source by generated(ctx) (harness/extract.py) with `…_for_current_source` lemmas, so that a changed constant breaks a
     proof obligation; glue (argument forms, dtypes, zero-length inputs, objects re-used across calls, results that are live views,
     copy()/pickle provenance) should be a generated dimension of the harness, not a fixed choice.
  Soundness first: the check must exit 0 on the unchanged tree for seeds 0..7 quick and seed 0 thorough, stay within ~60 s quick,
  and must not alarm on behaviour-preserving rewrites (verdict relations per the guide: tolerance with absolute floor + conditioning
  term; never private attributes). A genuine defect you can demonstrate on the real code → minimal `fix:` commit in your worktree +
  findings.d entry (see guide) or an open finding.

TIME BOX: {minutes} minutes of wall time in total. Work in small increments that each leave the check green (build, run seeds 0..2,
then go on); after about {minutes - 12} minutes stop starting new things, make sure `./check {pid} --seed 0` and `--seed 5` exit 0
against /repo, append a section "## Round 7" to design.d/{pid}.md (misses → class → what was added; new model definitions; new theorems,
one line each; what remains), and finish. Unfinished Lean proofs must be removed or stated as `def …_statement : Prop` — no sorry.

FINAL REPORT (last message, concise): files changed; new theorem names; new model definitions / driver ops; misses now caught
(try_mutant outcome); fix commits (shas in /tmp/wt7_{pid}, oldest first) or findings; quick wall time; anything the lead must do.""")
