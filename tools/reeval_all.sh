#!/bin/bash
# tools/reeval_all.sh [P]  — re-run every kept seeded change and refactoring against the current checks
# (one worker per property, P properties in parallel); updates the metas in seeded/ and refactorings/.
cd "$(dirname "$0")/.."
P=${1:-5}
mkdir -p /tmp/reeval
one() {
  p=$1
  for d in seeded/${p}_m*; do
    [ -d "$d" ] || continue
    tools/try_mutant.py $d --keep --skip-confirm > /tmp/reeval/$(basename $d).log 2>&1
    echo "$(basename $d) $(grep -o '"caught": [a-z]*' /tmp/reeval/$(basename $d).log | head -1) $(grep -o '"apply_rc": [0-9]*' /tmp/reeval/$(basename $d).log | head -1)"
  done
  for d in refactorings/${p}_r*; do
    [ -d "$d" ] || continue
    tools/try_refactor.py $d --keep > /tmp/reeval/$(basename $d).log 2>&1
    echo "$(basename $d) $(grep -o '"silent": [a-z]*' /tmp/reeval/$(basename $d).log | head -1) $(grep -o '"confirmed": [a-z]*' /tmp/reeval/$(basename $d).log | head -1)"
  done
}
export -f one
printf 'C%02d\n' $(seq 1 20) | xargs -P $P -I{} bash -c 'one {}'
