#!/usr/bin/env python3
"""Lead-side integration of a finished builder:  tools/integrate.py <tag> C04 [C16 ...]
  1. cherry-pick the builder's fix:/hook: commits (branch agent-<tag>) onto /repo main, oldest first
     (commits whose subject is already on main are skipped), then run the 174 tests;
  2. merge findings.d/<id>.json into known_findings.json, rewriting worktree shas to the shas on main;
  3. add `import SkyllhModel.Props.<id>` to lean/SkyllhModel.lean and <id> to CLAIMED in harness/registry.py;
  4. regenerate MANIFEST.json.
Does not commit in /verif (the lead reviews, runs the checks against /repo and commits)."""
import json, os, re, subprocess, sys
V = os.path.dirname(os.path.dirname(os.path.abspath(__file__)))
tag, ids = sys.argv[1], sys.argv[2:]


def sh(cmd, check=True):
    r = subprocess.run(cmd, shell=True, capture_output=True, text=True)
    if check and r.returncode != 0:
        print(r.stdout, r.stderr)
        raise SystemExit('FAILED: ' + cmd)
    return r.stdout


main_subjects = {l.split(' ', 1)[1]: l.split(' ', 1)[0] for l in sh('git -C /repo log --format="%h %s" main').strip().split('\n')}
commits = [l for l in sh('git -C /repo log --reverse --format="%h %s" main..agent-' + tag).strip().split('\n') if l]
shamap = {}
for l in commits:
    h, subj = l.split(' ', 1)
    if subj in main_subjects:
        shamap[h] = main_subjects[subj]
        print('already on main:', l)
        continue
    if not (subj.startswith('fix:') or subj.startswith('hook:')):
        print('SKIP (not fix:/hook:):', l)
        continue
    r = subprocess.run('git -C /repo cherry-pick %s' % h, shell=True, capture_output=True, text=True)
    if r.returncode != 0:
        print(r.stdout, r.stderr)
        raise SystemExit('cherry-pick of %s failed; resolve by hand in /repo' % h)
    new = sh('git -C /repo log -1 --format=%h').strip()
    shamap[h] = new
    print('picked %s -> %s  %s' % (h, new, subj))
if commits:
    out = sh('cd /repo && /venv/bin/python -m pytest -q -p no:cacheprovider --timeout=900 2>&1 | tail -1')
    print('tests:', out.strip())
    if '174 passed' not in out:
        raise SystemExit('test-suite no longer passes')

kf_path = os.path.join(V, 'known_findings.json')
kf = json.load(open(kf_path))
for pid in ids:
    frag = os.path.join(V, 'findings.d', pid + '.json')
    if os.path.exists(frag):
        d = json.load(open(frag))
        entries = d.get('findings', d) if isinstance(d, dict) else d
        for e in entries:
            c = e.get('commit')
            if c:
                short = c[:7]
                new = shamap.get(short) or next((v for k, v in shamap.items() if c.startswith(k) or k.startswith(short)), None)
                if new:
                    e['what'] = e.get('what', '').replace(c, new).replace(short, new)
                    e['commit'] = new
                else:
                    print('WARNING: no main sha for finding commit', c)
            if not any(x.get('signature') == e.get('signature') and x.get('property') == e.get('property') for x in kf['findings']):
                kf['findings'].append(e)
        os.remove(frag)
json.dump(kf, open(kf_path, 'w'), indent=1)

root = os.path.join(V, 'lean', 'SkyllhModel.lean')
s = open(root).read()
for pid in ids:
    imp = 'import SkyllhModel.Props.%s\n' % pid
    if imp not in s:
        s += imp
open(root, 'w').write(s)
reg = os.path.join(V, 'harness', 'registry.py')
s = open(reg).read()
m = re.search(r"CLAIMED = \[([^\]]*)\]", s)
cur = [x.strip().strip("'") for x in m.group(1).split(',') if x.strip()]
for pid in ids:
    if pid not in cur:
        cur.append(pid)
cur.sort()
s = s[:m.start()] + 'CLAIMED = [' + ', '.join("'%s'" % c for c in cur) + ']' + s[m.end():]
open(reg, 'w').write(s)
print(sh('cd %s && tools/mkmanifest.py' % V))
print('hook commits (add to registry.HOOK_COMMITS):', [v for k, v in shamap.items() if any(l.startswith(k) and ' hook:' in l for l in commits)])
