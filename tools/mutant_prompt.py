#!/usr/bin/env python3
"""Brief for an independent mutant-writing sub-agent: tools/mutant_prompt.py C14 [n]"""
import json, sys, os
V = os.path.dirname(os.path.dirname(os.path.abspath(__file__)))
pid = sys.argv[1]
n = int(sys.argv[2]) if len(sys.argv) > 2 else 3
p = [json.loads(l) for l in open(os.path.join(V, 'properties.jsonl'))]
p = [x for x in p if x['id'] == pid][0]
import glob
round2 = '--round2' in sys.argv or '--round3' in sys.argv or '--round4' in sys.argv
avoid = ''
suffix = 'g' if '--round7' in sys.argv else ''
if round2:
    suffix = 'd' if '--round4' in sys.argv else ('c' if '--round3' in sys.argv else 'b')
    prev = []
    for m in sorted(glob.glob(os.path.join(V, 'seeded', pid + '_m*', 'meta.json'))):
        d = json.load(open(m))
        prev.append('  - %s (%s)' % (d.get('title', ''), ', '.join(d.get('files', []))))
    avoid = ("\nALREADY DONE by an earlier round (do NOT repeat these or close variants; pick other code sites, other clauses of the "
             "property, other manifestation mechanisms — e.g. state carried between calls on one object, aliasing of arrays handed in or out, "
             "an unusual but legal configuration, interaction of two options, boundary values, order of operations):\n" + '\n'.join(prev) + '\n')
    if '--round4' in sys.argv:
        avoid += ("\nMIX FOR THIS ROUND: change 1 = a PLAIN local slip of the kind that really happens in ordinary commits (off-by-one, "
                  "< vs <=, swapped arguments or indices, wrong default value, a dropped abs()/copy()/sort, a wrong axis, int vs float "
                  "division, a condition negated for one branch, a stale variable reused after a loop) at a code site not listed above, "
                  "that the 174 tests nevertheless do not notice; change 2 = an interaction (two options, two call sites, or a "
                  "configuration + a boundary value); change 3 = free choice, the subtlest you can find for a clause of the property "
                  "that the list above has touched least. Never use `git stash` (shared between worktrees).\n")
print(f"""You are a careful software engineer asked to inject realistic, subtle regressions into the Python package icecube/skyllh
(a framework for unbinned likelihood analyses of neutrino data) in order to evaluate somebody else's verification tooling, which
you know nothing about and must not look for (do not read anything under /verif).

Your own scratch git worktree of the package is /tmp/mw_{pid} (already created; work only there; never touch /repo). Python with all
dependencies: /venv/bin/python. Since the package is installed in editable mode from /repo, run your programs with
`cd /tmp/mw_{pid} && PYTHONPATH=/tmp/mw_{pid} /venv/bin/python demo.py` and check `skyllh.__file__` points into /tmp/mw_{pid}.
The existing test-suite: `cd /tmp/mw_{pid} && PYTHONPATH=/tmp/mw_{pid} /venv/bin/python -m pytest -q -p no:cacheprovider --timeout=900`
(must report 174 passed, before and after each of your changes).

THE PROPERTY that the package is supposed to satisfy (this is all you get):
  id: {p['id']}
  title: {p['title']}
  statement: {p['statement']}
  quantified over: {p['quantifier']['text']}
  code anchors: files {', '.join(p['anchors']['files'])}; mechanisms: {'; '.join(m['name'] + ' @ ' + m['where'] for m in p['anchors']['mechanism'])}

{avoid}
TASK: produce {n} DIFFERENT source changes (each a small patch to files under skyllh/, 1-15 changed lines, looking like a plausible
refactoring slip or "optimisation", no comments announcing the bug), each of which
  (a) BREAKS the property above for some inputs / histories / schedules,
  (b) still imports fine and still passes the whole existing test-suite (174 passed),
  (c) needs something SPECIFIC to manifest — a particular boundary value, a multi-step operation sequence, an unusual but legal
      configuration, a particular ordering, two cooperating sites that each look fine alone — NOT something any ordinary use
      would expose at once (e.g. not "function always raises", not "result is always wrong"),
  (d) comes with a demonstration program demo.py (plain Python, exit code 0 = property holds on the demonstrated input, exit code 1 =
      property violated, printing what it observed) that exits 1 with your change applied and exits 0 on the unchanged tree.
Make the {n} changes target different parts/clauses of the property and different code sites where possible.

DELIVERABLE: for k = 1..{n} a directory /tmp/mut_{pid}/{pid}_m<k>{suffix}/ containing
  patch.diff   (output of `git -C /tmp/mw_{pid} diff` for this change alone, against the worktree's HEAD),
  demo.py      (the demonstration; it must import skyllh from the tree given by PYTHONPATH, no hard-coded /tmp/mw path inside, no assertion on skyllh.__file__),
  meta.json    {{"property": "{pid}", "title": "<one line>", "breaks": "<which clause of the property and how>",
                "needs": "<what specific input / sequence / configuration is needed for it to manifest>",
                "files": ["skyllh/..."], "ran": ["<commands you ran and their outcome, briefly>"]}}
After saving each patch, restore the worktree (`git -C /tmp/mw_{pid} checkout -- .`) so that the next change starts from the clean
HEAD; each patch must apply on its own with `git apply`. Verify for each one: clean tree → demo exits 0; patched → demo exits 1 and
test-suite 174 passed. At the end leave the worktree clean. Final message: one line per change (what, where, what it needs).""")
