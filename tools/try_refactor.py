#!/usr/bin/env python3
"""Confirm a behaviour-preserving refactoring and run the check against it (it must stay silent).
  tools/try_refactor.py <dir with patch.diff, equiv.py, meta.json> [--keep] [--seeds 0,1]
clean worktree of /repo main: run equiv.py -> out0; apply patch: equiv.py -> out1 must equal out0, 174 tests must pass;
`VERIF_REPO=<worktree> ./check <prop>` must exit 0.  --keep copies it to /verif/refactorings/<id>/ with the outcome."""
import json, os, shutil, subprocess, sys, time
V = os.path.dirname(os.path.dirname(os.path.abspath(__file__)))
d = os.path.abspath(sys.argv[1])
keep = '--keep' in sys.argv
seeds = sys.argv[sys.argv.index('--seeds') + 1].split(',') if '--seeds' in sys.argv else ['0']
meta = json.load(open(os.path.join(d, 'meta.json')))
prop = meta['property']
props = sys.argv[sys.argv.index('--props') + 1].split(',') if '--props' in sys.argv else [prop]
mid = os.path.basename(d.rstrip('/'))
wt = '/tmp/rt_%s_%d' % (mid, os.getpid())


def sh(cmd, **kw):
    return subprocess.run(cmd, shell=True, capture_output=True, text=True, **kw)


res = {'id': mid, 'property': prop}
sh('git -C /repo worktree add -q --detach %s main' % wt)
try:
    env = dict(os.environ, PYTHONPATH=wt)
    eq = os.path.join(wt, '_equiv_tmp.py')
    open(eq, 'w').write(open(os.path.join(d, 'equiv.py')).read().replace('/tmp/rw_%s' % prop, wt).replace('rw_%s' % prop, os.path.basename(wt)))
    r0 = sh('/venv/bin/python %s' % eq, cwd=wt, env=env, timeout=1800)
    r = sh('git -C %s apply %s' % (wt, os.path.join(d, 'patch.diff')))
    if r.returncode != 0:
        r = sh('git -C %s apply --3way %s' % (wt, os.path.join(d, 'patch.diff')))
    res['apply_rc'] = r.returncode
    if r.returncode == 0:
        r1 = sh('/venv/bin/python %s' % eq, cwd=wt, env=env, timeout=1800)
        os.remove(eq)
        res['equiv_same'] = (r0.stdout == r1.stdout and r0.returncode == 0 and r1.returncode == 0)
        r = sh('/venv/bin/python -m pytest -q -p no:cacheprovider --timeout=900 2>&1 | tail -1', cwd=wt, env=env, timeout=1800)
        res['tests'] = r.stdout.strip()
        res['check'] = []
        for p in props:
            for s in seeds:
                t = time.time()
                r = sh('./check %s --seed %s' % (p, s), cwd=V, env=dict(os.environ, VERIF_REPO=wt), timeout=7200)
                lines = [l for l in r.stdout.split('\n') if l.startswith(('VIOLATION', 'MACHINERY', '  what', p + ' '))]
                res['check'].append({'prop': p, 'seed': s, 'rc': r.returncode, 'wall_s': round(time.time() - t, 1), 'lines': lines[:6]})
    res['confirmed'] = bool(res.get('equiv_same')) and '174 passed' in res.get('tests', '')
    res['silent'] = bool(res.get('check')) and all(c['rc'] == 0 for c in res['check'])
finally:
    sh('git -C /repo worktree remove --force %s' % wt)
    for p in props:
        sh('./check %s --seed 0 >/dev/null 2>&1' % p, cwd=V)
print(json.dumps(res, indent=1))
if keep and res.get('confirmed'):
    dst = os.path.join(V, 'refactorings', mid)
    os.makedirs(dst, exist_ok=True)
    for f in ('patch.diff', 'equiv.py'):
        if os.path.abspath(d) != os.path.abspath(dst):
            shutil.copy(os.path.join(d, f), dst)
    meta['confirmed_by_lead'] = {k: res.get(k) for k in ('equiv_same', 'tests')}
    meta['check_result'] = {'silent': res['silent'], 'runs': res['check']}
    json.dump(meta, open(os.path.join(dst, 'meta.json'), 'w'), indent=1)
    print('kept in', dst)
