#!/bin/bash
# tools/eval_round.sh <suffix> [parallel] — confirm and evaluate every delivered /tmp/mut_Cxx/Cxx_m<k><suffix> not yet evaluated
cd "$(dirname "$0")/.."
suf=$1; par=${2:-6}
ls -d /tmp/mut_C*/C*_m[0-9]$suf 2>/dev/null | while read d; do m=$(basename $d); [ -s /tmp/try_$m.out ] || echo $d; done | \
  xargs -P $par -I{} sh -c 'm=$(basename {}); python3 tools/try_mutant.py {} --keep --seeds 0,3 > /tmp/try_$m.out.tmp 2>&1; mv /tmp/try_$m.out.tmp /tmp/try_$m.out'
