#!/usr/bin/env python3
"""Brief for a reviewer sub-agent auditing one property's proof artefacts: tools/review_prompt.py C04"""
import json, sys, os
V = os.path.dirname(os.path.dirname(os.path.abspath(__file__)))
pid = sys.argv[1]
p = [json.loads(l) for l in open(os.path.join(V, 'properties.jsonl'))]
p = [x for x in p if x['id'] == pid][0]
print(f"""You are an expert reviewer of machine-checked proofs (Lean 4) and of differential-testing harnesses. A verification framework for the
Python package icecube/skyllh lives in /verif (read /verif/BUILDER_GUIDE.md for its conventions, /verif/DESIGN.md section 2-3 for the
approach). For property {pid} somebody built: the executable Lean model(s) under /verif/lean/SkyllhModel/Model/, the theorems
/verif/lean/SkyllhModel/Props/{pid}.lean (+ helper lemmas in Proofs/), the driver /verif/lean/Driver/{pid}.lean, the correspondence harness
/verif/harness/props/{pid.lower()}.py (+ fixtures it imports) and the as-built notes /verif/design.d/{pid}.md. skyllh itself is at /repo.

THE PROPERTY (fixed text):
  id: {p['id']}  —  {p['title']}
  statement: {p['statement']}
  quantified over: {p['quantifier']['text']}
  anchors: files {', '.join(p['anchors']['files'])}; mechanisms: {'; '.join(m['name'] + ' @ ' + m['where'] for m in p['anchors']['mechanism'])}

YOUR TASK is a critical, READ-ONLY audit (do not edit any file except the report you write; do not run git; you may run
`cd /verif && ./check {pid} --seed 7` once and small read-only experiments with /venv/bin/python, and `lake env lean` on scratch files under /tmp).
Answer, with file/line references:
 1. COVERAGE OF THE PROPERTY TEXT: split the statement (and the quantifier) into its individual clauses; for each clause name the theorem(s)
    that state it at full strength, or say "not stated" / "stated only for a special case" / "only tested by the harness". Be strict:
    a theorem about a specification function counts for the code only if another theorem or the harness ties that function to the
    code-shaped model.
 2. STATEMENT QUALITY: theorems whose hypotheses are unsatisfiable, much stronger than the code guarantees, or that make the statement
    true for the wrong reason (totalised division, getD/headD defaults, `Option` errors swallowed, conclusions of the form P → P,
    definitions that were bent to make a proof pass); `decide` over a sample presented as a general claim; missing non-vacuity examples.
 3. MODEL FIDELITY: read the anchored skyllh code and compare with the code-shaped model, statement by statement: list every place where
    the model does something different from the code (different order of operations that matters, missing branch, missing error,
    different boundary comparison, state the real object has but the model lacks, inputs the code accepts but the model rejects).
 4. CORRESPONDENCE / ORACLES: which behaviours of the anchored code are never exercised by the generators (branches, option
    combinations, sizes named in the quantifier, histories on one object, aliasing of inputs/outputs, error paths); where the comparison
    relation is too loose (tolerance hides a real error) or too tight (would alarm on a behaviour-preserving rewrite, e.g. reads private
    attributes, compares bit-exactly where rounding may legitimately differ, depends on exception message text or dict order).
 5. TOP RECOMMENDATIONS: a ranked list (at most 8) of concrete additions — new theorem statements (write them in Lean syntax as
    precisely as you can), model extensions, generator classes, oracle changes — each with one sentence on the realistic code change
    it would newly catch or the false alarm it would avoid.
Write the report to /verif/review.d/{pid}.md (markdown, at most ~250 lines, no praise, only findings and recommendations). Your final
message: the five most important findings in one line each.""")
