#!/usr/bin/env python3
"""Print the brief for a builder sub-agent: tools/agent_prompt.py C04 [C16 ...] [--extra 'text']"""
import json, sys, os
V = os.path.dirname(os.path.dirname(os.path.abspath(__file__)))
ids = [a for a in sys.argv[1:] if a.startswith('C')]
extra = ''
if '--extra' in sys.argv:
    extra = sys.argv[sys.argv.index('--extra') + 1]
props = {json.loads(l)['id']: l.strip() for l in open(os.path.join(V, 'properties.jsonl'))}
tag = '_'.join(ids)
print(f"""You are building one part of a Lean-4 machine-checked-proof verification framework for the Python package icecube/skyllh.
The framework lives in /verif (lead-maintained); skyllh is at /repo (pinned commit + a few 'fix:' commits). You build the check for
propert{'ies' if len(ids) > 1 else 'y'} {', '.join(ids)} end to end: executable Lean model, Lean theorems, line-protocol driver, Python correspondence harness with
failing-input oracles, triage of genuine defects, self-test with hand-made mutants.

READ FIRST (in this order): /verif/BUILDER_GUIDE.md (binding conventions and hard rules), /verif/DESIGN.md sections 2, 3 and the
section-4 entr{'ies' if len(ids) > 1 else 'y'} for {', '.join(ids)} (the plan: model M, theorems T, tie, search S, observations Obs = defect leads to reproduce), then the worked
example C14 (lean/SkyllhModel/Model/Livetime.lean, lean/SkyllhModel/Props/C14.lean, lean/Driver/C14.lean, harness/props/c14.py) and
harness/core.py (the Ctx API you call). Then read the anchored skyllh source files of your property (targeted reads; do not read the
whole repository).

YOUR PROPERTY TEXT (fixed, from /verif/properties.jsonl; do not edit that file):
""")
for i in ids:
    print(props[i])
    print()
print(f"""YOUR SCRATCH WORKTREE of skyllh: /tmp/wt_{tag} (branch agent-{tag}, already created from /repo HEAD). Make all source experiments,
'fix:' commits and mutants there, never in /repo. Run your check against it with
    cd /verif && VERIF_REPO=/tmp/wt_{tag} ./check {ids[0]} --seed 0
The 174-test suite: cd /tmp/wt_{tag} && /venv/bin/python -m pytest -q -p no:cacheprovider --timeout=900
Python for everything that imports skyllh: /venv/bin/python (numpy 2.5, scipy 1.18, astropy, pyarrow; no pandas).

FILES YOU OWN (create them; nobody else touches them): lean/SkyllhModel/Model/<YourName>.lean (one or more), lean/SkyllhModel/Props/{'/'.join(ids)}.lean,
optional lean/SkyllhModel/Proofs/<YourName>.lean, lean/Driver/{'/'.join(ids)}.lean, lean/SkyllhModel/Generated/{'/'.join(ids)}.lean (written by your generated()),
harness/props/{'/'.join(i.lower() for i in ids)}.py, optional harness/<yourname>_fixtures.py, findings.d/{'/'.join(ids)}.json, design.d/{'/'.join(ids)}.md.
Everything else in /verif is read-only for you (see the guide). Other builders work concurrently in /verif on other properties:
never run a bare `lake build`, `lake clean`, or git commands in /verif.

PRIORITIES (in this order): (1) a sound check that exits 0 on the (fixed) tree for seeds 0..4 and never alarms on behaviour-preserving
rewrites; (2) a correspondence + oracles that catch realistic semantic mutants of the anchored code (off-by-one, > vs >=, dropped term,
stale cache, wrong index...) with a concrete replay; (3) real theorems at the strength of the property text — as many of the design's
theorem list as you can fully prove (no sorry); state the rest as `def …_statement : Prop` with a `_partial` theorem; (4) every defect lead
of the design for your property reproduced by your check and either fixed (small 'fix:' commit in your worktree) or recorded as a finding.
The theorems are the main deliverable of this project: do not stop at two trivial lemmas — aim for the design's list, including the
inductive / refinement ones, and prefer proving the model form that mirrors the code.
Budget: aim to be done in roughly 2–3 hours of work; be economical with tokens (targeted reads, no huge dumps of output).
{extra}
FINAL REPORT (your last message, concise): files created; theorem names proved (and which are partial/statement-only); what the
correspondence compares and with which relation; defects reproduced with witness → fix commit shas in your worktree (oldest first) or
finding entries; mutants tried and verdicts; quick/thorough wall times; anything the lead must do at integration (e.g. cherry-pick order,
conflicts, shared helpers).""")
