#!/venv/bin/python
"""Regenerate /verif/MANIFEST.json from harness/registry.py and the properties file."""
import json
import os
import sys
V = os.path.dirname(os.path.dirname(os.path.abspath(__file__)))
sys.path.insert(0, V)
sys.path.insert(0, os.environ.get('VERIF_REPO', '/repo'))
import importlib  # noqa
from harness.registry import CLAIMED, COMMON_NOTE, NOT_APPLICABLE, HOOK_COMMITS  # noqa
CHECKS = {p: importlib.import_module('harness.props.' + p.lower()).MANIFEST for p in CLAIMED}

props = [json.loads(l)['id'] for l in open(os.path.join(V, 'properties.jsonl'))]
checks = []
for pid in props:
    if pid not in CHECKS:
        continue
    c = CHECKS[pid]
    checks.append({
        'property_id': pid,
        'quick_cmd': './check %s --tier quick' % pid,
        'thorough_cmd': './check %s --tier thorough' % pid,
        'evidence_file': 'evidence/%s.json' % pid,
        'replay_cmd_template': './check %s --replay {path}' % pid,
        'engine': 'lean4-proof+correspondence',
        'level_claimed': {'category': 'proof', 'text': c['text'], 'design_ref': c['design']},
        'level_note': COMMON_NOTE + c['note'],
        'technique': c['technique'],
    })
na = [{'property_id': p, 'reason': NOT_APPLICABLE.get(p, 'check not built yet (work in progress); the design in DESIGN.md section 4 applies')}
      for p in props if p not in CHECKS]
m = {
    'version': 1,
    'setup_cmd': 'cd lean && lake build',
    'hooks': {
        'guard': 'ICECUBE_SKYLLH_VERIF',
        'enable': 'checks set ICECUBE_SKYLLH_VERIF=1 in their own process environment before importing skyllh from /repo (pure Python, nothing to build)',
        'baseline_off_cmd': 'cd /repo && env -u ICECUBE_SKYLLH_VERIF /venv/bin/python -m pytest -ra -q -p no:cacheprovider --timeout=900 --continue-on-collection-errors',
        'source_commits': HOOK_COMMITS,
        'add_only': True,
    },
    'engines': [
        {'name': 'lean4-proof+correspondence', 'path': 'check',
         'serves_properties': [c['property_id'] for c in checks],
         'kind_free_text': 'Lean 4 theorems about executable models (lean/SkyllhModel), re-checked by lake build + #print axioms audit on every run; '
                           'models tied to /repo by a differential correspondence harness (harness/) over a line protocol, and by constants/signatures '
                           'regenerated from the source; property oracles on the implementation search for failing inputs'},
    ],
    'checks': checks,
    'not_applicable': na,
    'notes': 'See DESIGN.md. ./check Cxx [--tier quick|thorough] [--seed N] [--replay FILE]; exit 0 ok, 1 violation, 2 machinery error. known_findings.json lists repaired (fixed:) and open findings.',
}
with open(os.path.join(V, 'MANIFEST.json'), 'w') as f:
    json.dump(m, f, indent=1)
print('MANIFEST.json: %d checks, %d not claimed' % (len(checks), len(na)))
