#!/usr/bin/env python3
"""Record the digests of /repo's skyllh sources as the tree the checks were validated on: tools/mkbaseline.py
(run after every fix:/hook: commit to /repo; harness/core.py source_drift compares the tree under test with it)."""
import json, os, subprocess, sys
V = os.path.dirname(os.path.dirname(os.path.abspath(__file__)))
sys.path.insert(0, V)
os.environ['VERIF_REPO'] = '/repo'
from harness.core import source_digests
st = subprocess.run('git -C /repo status --porcelain -- skyllh', shell=True, capture_output=True, text=True).stdout.strip()
if st:
    raise SystemExit('refusing: /repo has uncommitted changes under skyllh/:\n' + st)
head = subprocess.run('git -C /repo rev-parse --short HEAD', shell=True, capture_output=True, text=True).stdout.strip()
d = {'repo_head': head, 'files': source_digests('/repo')}
json.dump(d, open(os.path.join(V, 'source_baseline.json'), 'w'), indent=0, sort_keys=True)
print('baseline of %d files at %s' % (len(d['files']), head))
