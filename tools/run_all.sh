#!/bin/bash
# tools/run_all.sh [seed] [tier]  — run every claimed check against /repo, in parallel (4 at a time), print one line each
cd "$(dirname "$0")/.."
seed=${1:-0}; tier=${2:-quick}
ids=$(python3 -c "import json;print(' '.join(c['property_id'] for c in json.load(open('MANIFEST.json'))['checks']))")
mkdir -p /tmp/run_all_$$
printf '%s\n' $ids | xargs -P 4 -I{} sh -c "./check {} --tier $tier --seed $seed > /tmp/run_all_$$/{}.log 2>&1; echo rc=\$? \$(grep -E '^C[0-9]+ (OK|VIOLATED)|MACHINERY' /tmp/run_all_$$/{}.log | tail -1)"
grep -h -E "^VIOLATION|MACHINERY" /tmp/run_all_$$/*.log | cut -c1-300
rm -rf /tmp/run_all_$$
